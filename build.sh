#!/bin/sh
# Rebuild bin/vmon from /repo's current working tree with the verif hooks enabled.
set -e
cd "$(dirname "$0")/vmon"
export GOFLAGS=-mod=mod GOPROXY=off GOSUMDB=off GOTOOLCHAIN=local
cp /repo/go.sum go.sum
go build -tags verif -o ../bin/vmon .

#!/bin/sh
# Runs the repository's pinned suite with the verif guard OFF (no build tag) and prints a summary.
export DBUS_SESSION_BUS_ADDRESS="${DBUS_SESSION_BUS_ADDRESS:-unix:path=/nonexistent/vmon-no-session-bus}"   # no session bus daemon per process (keyring init)
export GOFLAGS=-mod=mod GOPROXY=off GOSUMDB=off GOTOOLCHAIN=local
mkdir -p /verif/work; cd /repo && go test -json -vet=off -count=1 -timeout 25m ./... > /verif/work/baseline.json 2>/verif/work/baseline.err
rc=$?
python3 - <<'PY'
import json
p=f=0; failed=[]
for l in open('/verif/work/baseline.json'):
    try: e=json.loads(l)
    except Exception: continue
    if e.get('Test') and e.get('Action') in ('pass','fail'):
        if e['Action']=='pass': p+=1
        else:
            f+=1; failed.append(e['Package']+'::'+e['Test'])
print('tests passed',p,'failed',f)
for x in failed: print('FAILED',x)
PY
git -C /repo checkout -- x/alliance/tests/benchmark/benchmark_genesis.json 2>/dev/null
exit $rc

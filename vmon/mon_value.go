package main

// mon_value.go — C04 position isolation (before/after exact values) and C05 user-operation liveness
// (non-destructive probes on branches).

import (
	"fmt"
	"math/big"
	"os"
	"strings"

	"cosmossdk.io/math"
	stakingtypes "github.com/cosmos/cosmos-sdk/x/staking/types"
)

// ================================================================================================
// C04
// ================================================================================================

type MonC04 struct {
	BaseMon
}

func NewMonC04(r *Runner) *MonC04 { return &MonC04{BaseMon{r}} }
func (m *MonC04) Name() string    { return "C04" }

// sharePrice: tokens per delegator share on (val, denom); 1 when undefined.
func sharePrice(s *Snap, val, denom string) *big.Rat {
	v := s.Vals[val]
	if v == nil || !v.HasInfo {
		return assetPrice(s, denom)
	}
	S := ratDec(decAmount(v.Info.TotalDelegatorShares, denom))
	if S.Sign() == 0 {
		return assetPrice(s, denom)
	}
	p := new(big.Rat).Quo(s.ValTokens(val, denom), S)
	if ap := assetPrice(s, denom); ap.Cmp(p) > 0 {
		p = ap
	}
	if p.Cmp(ratI64(1)) < 0 {
		return ratI64(1)
	}
	return p
}

// assetPrice: tokens per validator share of the asset (1 when undefined or below 1).
func assetPrice(s *Snap, denom string) *big.Rat {
	a, ok := s.Assets[denom]
	if !ok || a.TotalValidatorShares.IsZero() {
		return ratI64(1)
	}
	p := new(big.Rat).Quo(ratInt(a.TotalTokens), ratDec(a.TotalValidatorShares))
	if p.Cmp(ratI64(1)) < 0 {
		return ratI64(1)
	}
	return p
}

func (m *MonC04) AfterTx(o *TxOutcome) {
	rep := m.R.Rep
	k := o.Step.K
	if !o.Res.OK || (k != "delegate" && k != "undelegate" && k != "redelegate" && k != "claim") {
		return
	}
	w := m.R.W
	den := o.Step.Den
	a, ok := o.Pre.Assets[den]
	if !ok {
		return
	}
	if a.TotalValidatorShares.IsZero() && a.TotalTokens.IsPositive() {
		// recorded finding orphaned-total: a 100 % slash removed every validator share of the asset while its
		// staked total stayed; token conversions with a zero share total return the whole total, and the next
		// depositor is credited with it
		rep.KnownFinding("C04", "orphaned-total", "asset %s has a staked total of %s but no validator shares (after a complete slash of its only holder): the %s by %s is issued shares against an empty share total and is credited with the orphaned total", den, a.TotalTokens, k, w.Name(o.Actor))
		rep.Class("C04.known.orphaned-total")
		return
	}
	if a.TotalValidatorShares.IsPositive() && a.TotalValidatorShares.TruncateInt().IsZero() && a.TotalTokens.IsPositive() {
		rep.Class("C04.asset-share-total-below-one") // all holders slashed repeatedly: less than one validator share backs the whole stake
	}
	tt := ratInt(a.TotalTokens)
	if pa, ok := o.Post.Assets[den]; ok && pa.TotalTokens.GT(a.TotalTokens) {
		tt = ratInt(pa.TotalTokens)
	}
	amt := ratInt(o.Amount)
	keys := map[PosKey]bool{}
	for pk := range o.Pre.Dels {
		keys[pk] = true
	}
	for pk := range o.Post.Dels {
		keys[pk] = true
	}
	rep.Class(fmt.Sprintf("C04.%s/mag%d/positions%d", k, magClass(a.TotalTokens), min(len(keys), 4)))
	for pk := range keys {
		if pk.Denom != den {
			// positions in other assets are not touched at all
			rep.Eval("C04.other-asset")
			if o.Pre.Value(pk).Cmp(o.Post.Value(pk)) != 0 {
				rep.Violate("C04", "C04.other-asset", o.Idx, "%s of %s changed the value of position (%s,%s,%s) in another asset: %s -> %s", k, den, w.Name(pk.Del), w.Name(pk.Val), pk.Denom, ratStr(o.Pre.Value(pk)), ratStr(o.Post.Value(pk)))
				return
			}
			continue
		}
		expect := new(big.Rat)
		isActor := pk.Del == o.Actor
		if isActor {
			switch k {
			case "delegate":
				if pk.Val == o.Val {
					expect.Set(amt)
				}
			case "undelegate":
				if pk.Val == o.Val {
					expect.Neg(amt)
				}
			case "redelegate":
				if pk.Val == o.Val {
					expect.Neg(amt)
				} else if pk.Val == o.Dst {
					expect.Set(amt)
				}
			}
		}
		diff := new(big.Rat).Sub(o.Post.Value(pk), o.Pre.Value(pk))
		dev := new(big.Rat).Sub(diff, expect)
		// one base unit plus the relative error of 18-digit arithmetic: conversions between tokens and
		// shares are off by ~1e-18 of the staked total, and a share is worth `price` tokens
		price := sharePrice(o.Pre, pk.Val, den)
		if p2 := sharePrice(o.Post, pk.Val, den); p2.Cmp(price) > 0 {
			price = p2
		}
		b := budget(new(big.Rat).Mul(tt, price), 1, 24) // about a dozen 18-digit operations per transition
		// the module removes a whole delegation when the remainder is below its 0.01-share tolerance
		b.Add(b, new(big.Rat).Mul(big.NewRat(1, 50), price))
		if expect.Sign() != 0 || isActor {
			rep.Eval("C04.actor-amount")
		} else {
			rep.Eval("C04.others-untouched")
		}
		if ratAbs(dev).Cmp(b) > 0 {
			// recorded finding: dust validator shares / sub-share dust captured by the next entrant
			if k != "claim" && k != "undelegate" {
				dstKey := PosKey{o.Actor, o.Val, den}
				if k == "redelegate" {
					dstKey = PosKey{o.Actor, o.Dst, den}
				}
				if pk.Val == dstKey.Val {
					if cause, ok := dustCapture(o.Pre, o.Post, den, dstKey, amt, b); ok {
						rep.KnownFinding("C04", "dust-capture", "%s", cause)
						rep.Class("C04.known.dust-capture")
						continue
					}
				}
			}
			// recorded finding subshare-rule: below one delegator share on (validator, asset) tokens convert to
			// shares 1:1, so moving n tokens out removes n shares although a share is worth more than a token
			if k == "undelegate" || k == "redelegate" {
				if pv := o.Pre.Vals[o.Val]; pv != nil && pv.HasInfo && pk.Val == o.Val {
					S := decAmount(pv.Info.TotalDelegatorShares, den)
					if S.IsPositive() && S.TruncateInt().IsZero() {
						rep.KnownFinding("C04", "subshare-rule", "%s of %s%s from %s whose delegator-share total is %s (< 1): tokens are converted to shares 1:1 and position (%s,%s) changed by %s instead of %s", k, o.Amount, den, w.Name(o.Val), S, w.Name(pk.Del), w.Name(pk.Val), ratStr(diff), ratStr(expect))
						rep.Class("C04.known.subshare-rule")
						continue
					}
				}
			}
			what := "C04.others-untouched"
			if isActor && expect.Sign() != 0 {
				what = "C04.actor-amount"
			}
			rep.Violate("C04", what, o.Idx, "%s %s%s by %s on %s: position (%s,%s) changed by %s, expected %s (tolerance %s)", k, o.Amount, den, w.Name(o.Actor), w.Name(o.Val), w.Name(pk.Del), w.Name(pk.Val), ratStr(diff), ratStr(expect), ratStr(b))
			return
		}
	}
	m.sumCheck("tx "+k, o.Idx, o.Post)
}

// dustCapture: see the recorded finding "dust-capture" (known_findings.json).
func dustCapture(pre, post *Snap, denom string, dst PosKey, amt *big.Rat, b *big.Rat) (string, bool) {
	v := pre.Vals[dst.Val]
	if v == nil || !v.HasInfo {
		return "", false
	}
	S := decAmount(v.Info.TotalDelegatorShares, denom)
	if !S.TruncateInt().IsZero() {
		return "", false
	}
	dust := pre.ValTokens(dst.Val, denom)
	if dust.Sign() <= 0 {
		return "", false
	}
	gain := new(big.Rat).Sub(post.Value(dst), pre.Value(dst))
	excess := new(big.Rat).Sub(gain, amt)
	lim := new(big.Rat).Add(dust, b)
	if excess.Cmp(new(big.Rat).Neg(b)) >= 0 && excess.Cmp(lim) <= 0 {
		return fmt.Sprintf("new stake on a validator whose delegator-share total is below one share (%s shares) while it still carries validator shares worth %s tokens (dust left by earlier exits) is issued shares 1:1 and captures that dust (excess %s)", S, ratStr(dust), ratStr(excess)), true
	}
	return "", false
}

// sumCheck: the reported values of all positions in an asset never sum to more than its staked total
// plus one unit per position.
func (m *MonC04) sumCheck(where string, idx int, s *Snap) {
	rep := m.R.Rep
	sum := map[string]*big.Int{}
	cnt := map[string]int64{}
	for _, pk := range s.DelOrder {
		if sum[pk.Denom] == nil {
			sum[pk.Denom] = new(big.Int)
		}
		sum[pk.Denom].Add(sum[pk.Denom], s.Reported(pk))
		cnt[pk.Denom]++
	}
	for _, d := range s.AssetOrder {
		if sum[d] == nil {
			continue
		}
		if s.Assets[d].TotalValidatorShares.IsZero() && s.Assets[d].TotalTokens.IsPositive() {
			rep.KnownFinding("C04", "orphaned-total", "asset %s has a staked total of %s but no validator shares: every remaining delegation is reported as worth the whole total", d, s.Assets[d].TotalTokens)
			continue
		}
		rep.Eval("C04.reported-sum")
		lim := new(big.Int).Add(s.Assets[d].TotalTokens.BigInt(), big.NewInt(cnt[d]))
		// 18-digit slack at extreme magnitudes
		bud, _ := new(big.Float).SetRat(budget(ratInt(s.Assets[d].TotalTokens), 0, 8)).Int(nil)
		lim.Add(lim, bud)
		if sum[d].Cmp(lim) > 0 {
			rep.Violate("C04", "C04.reported-sum", idx, "%s: reported values of the %d positions in %s sum to %s, staked total %s", where, cnt[d], d, sum[d], s.Assets[d].TotalTokens)
			return
		}
	}
}

func (m *MonC04) AfterBlock(o *BlockOutcome) {
	if o.EndRes.Failed() {
		return
	}
	m.sumCheck("end-block", o.Idx, o.PostEnd)
	if !m.R.Halt && !o.tainted {
		m.sumCheck("begin-block", o.Idx, o.PostBeg)
	}
}

// Probe: delegate-then-undelegate round trip never returns more than was put in.
func (m *MonC04) Probe(idx int) {
	rep := m.R.Rep
	w := m.R.W
	s := m.R.Cur
	if len(w.Actors) == 0 || len(s.AssetOrder) == 0 {
		return
	}
	ai := len(w.Actors) - 1
	actor := w.Actors[ai].String()
	den := s.AssetOrder[idx%len(s.AssetOrder)]
	vi := idx % len(w.Vals)
	val := w.Vals[vi].Oper.String()
	pk := PosKey{actor, val, den}
	if _, has := s.Dels[pk]; has {
		return // only fresh positions give a clean round trip
	}
	amts := []string{"1", "7", "1000003"}
	if sp := specOf(m.R.Cfg, den); sp != nil {
		amts = append(amts, sp.Mag)
	}
	a := amts[(idx/3)%len(amts)]
	bctx, _ := w.Ctx.CacheContext()
	res := w.RunMsgOn(bctx, m.R.buildMsg(Step{K: "delegate", A: ai, V: vi, Den: den, Amt: a}), true)
	if !res.OK {
		return // C05's business
	}
	mid := w.Snapshot(bctx)
	bal := mid.Reported(pk)
	ain, _ := new(big.Int).SetString(a, 10)
	rep.Eval("C04.round-trip")
	rep.Class(fmt.Sprintf("C04.round-trip/amt%d", magClass(math.NewIntFromBigInt(ain))))
	tol, _ := new(big.Float).SetRat(budget(new(big.Rat).Mul(ratInt(mid.Assets[den].TotalTokens), sharePrice(mid, val, den)), 0, 24)).Int(nil)
	lim := new(big.Int).Add(ain, tol)
	if bal.Cmp(lim) > 0 {
		if a0 := s.Assets[den]; a0.TotalValidatorShares.IsZero() && a0.TotalTokens.IsPositive() {
			rep.KnownFinding("C04", "orphaned-total", "a fresh delegation of %s%s reports a balance of %s: the asset's staked total of %s has no validator shares and is credited to the next depositor", a, den, bal, a0.TotalTokens)
			rep.Class("C04.known.orphaned-total")
			return
		}
		if _, ok := dustCapture(s, mid, den, pk, new(big.Rat).SetInt(ain), ratI64(1)); ok {
			rep.KnownFinding("C04", "dust-capture", "a fresh delegation of %s%s to %s reports a balance of %s (dust left on the validator is captured)", a, den, w.Name(val), bal)
			return
		}
		rep.Violate("C04", "C04.round-trip", idx, "delegating %s%s to %s gives a reported balance of %s: a round trip would return more than was put in", a, den, w.Name(val), bal)
		return
	}
	// and the undelegation of that reported balance must succeed and queue exactly that amount
	if bal.Sign() > 0 {
		res = w.RunMsgOn(bctx, m.R.buildMsg(Step{K: "undelegate", A: ai, V: vi, Den: den, Amt: bal.String()}), true)
		if res.OK {
			rep.Eval("C04.round-trip-exit")
		}
	}
}

func specOf(c Config, denom string) *AssetSpec {
	for i := range c.Assets {
		if c.Assets[i].Denom == denom {
			return &c.Assets[i]
		}
	}
	return nil
}

// ================================================================================================
// C05
// ================================================================================================

type MonC05 struct {
	BaseMon
	wiped map[[2]string]string // (validator, denom) whose validator shares a user's exit removed while other positions there kept value
}

func NewMonC05(r *Runner) *MonC05 { return &MonC05{BaseMon{r}, map[[2]string]string{}} }
func (m *MonC05) Name() string    { return "C05" }

// AfterTx: provenance of the zero-value state. The recorded finding zero-value-validator is about a
// validator whose stake in an asset is worthless because it was slashed completely or is dust against a
// huge total (its fraction of the asset has no 18-digit representation). An exit of one delegator that
// removes ALL validator shares of (validator, asset) although the positions that stay behind are worth
// more than 18-digit noise is another cause and is remembered here; a later division by zero on that
// pair is then not matched with the recorded finding.
func (m *MonC05) AfterTx(o *TxOutcome) {
	if !o.Res.OK || (o.Step.K != "undelegate" && o.Step.K != "redelegate") {
		return
	}
	den := o.Step.Den
	v0, v1 := o.Pre.Vals[o.Val], o.Post.Vals[o.Val]
	a1, ok := o.Post.Assets[den]
	if v0 == nil || v1 == nil || !v0.HasInfo || !v1.HasInfo || !ok {
		return
	}
	// value that stays behind on (validator, asset): the other delegators' positions and the actor's remainder
	rest := new(big.Rat)
	for _, pk := range o.Pre.DelOrder {
		if pk.Val != o.Val || pk.Denom != den {
			continue
		}
		v := o.Pre.Value(pk)
		if pk.Del == o.Actor {
			v = new(big.Rat).Sub(v, ratInt(o.Amount))
			if v.Sign() < 0 {
				v = new(big.Rat)
			}
		}
		rest.Add(rest, v)
	}
	S1 := decAmount(v1.Info.TotalDelegatorShares, den)
	if rest.Sign() > 0 && rest.Cmp(ratI64(1)) < 0 && !S1.TruncateInt().IsZero() {
		m.R.Rep.Class("C05.sub-unit-remainder-after-exit")
	}
	if !decAmount(v0.Info.ValidatorShares, den).IsPositive() || !decAmount(v1.Info.ValidatorShares, den).IsZero() || S1.TruncateInt().IsZero() {
		return
	}
	// 18-digit noise: the module clears the validator's shares when its remaining token value evaluates to 0
	// with 18 digits (remaining fraction of the asset < 5e-19, or value < 5e-19); three orders of margin
	noise := new(big.Rat).SetFrac(big.NewInt(1), new(big.Int).Exp(big.NewInt(10), big.NewInt(15), nil))
	// relative to the scale the 18-digit arithmetic of this exit worked at: the staked total before and after
	// and the amount moved (at 1e22+ base units a remainder of a fraction of a unit is below its resolution:
	// recorded family precision-18dec / dust against a huge total)
	scale := new(big.Rat)
	for _, x := range []*big.Rat{ratInt(a1.TotalTokens), ratInt(o.Pre.Assets[den].TotalTokens), ratInt(o.Amount)} {
		if x.Cmp(scale) > 0 {
			scale = x
		}
	}
	rel := new(big.Rat).Set(noise)
	if scale.Sign() > 0 {
		rel.Mul(rel, scale)
	}
	if rest.Cmp(noise) > 0 && rest.Cmp(rel) > 0 {
		m.wiped[[2]string{o.Val, den}] = fmt.Sprintf("the %s of %s%s by %s at step %d removed every validator share of (%s,%s) although the positions staying there were worth %s and hold %s delegator shares", o.Step.K, o.Amount, den, m.R.W.Name(o.Actor), o.Idx, m.R.W.Name(o.Val), den, ratStr(rest), S1)
	}
}

// classify: recorded findings of C05 are identified by mechanism; anything else is a violation.
func (m *MonC05) classify(op string, res TxResult, s *Snap, val, denom string, amount *big.Int) (string, string) {
	msg := res.Err + res.Panic
	a := s.Assets[denom]
	v := s.Vals[val]
	big24 := new(big.Int).Exp(big.NewInt(10), big.NewInt(16), nil)
	huge := a.TotalTokens.BigInt().Cmp(big24) >= 0 || (amount != nil && amount.Cmp(big24) >= 0)
	// zero-value-validator: validator's stake in the asset is worth 0 in 18-digit arithmetic while
	// delegator shares >= 1 exist -> every conversion divides by zero
	if strings.Contains(msg, "division by zero") && v != nil && v.HasInfo {
		S := decAmount(v.Info.TotalDelegatorShares, denom)
		vs := decAmount(v.Info.ValidatorShares, denom)
		valTokensZero := a.TotalValidatorShares.IsZero() && a.TotalTokens.IsZero()
		if !a.TotalValidatorShares.IsZero() {
			valTokensZero = vs.Quo(a.TotalValidatorShares).Mul(math.LegacyNewDecFromInt(a.TotalTokens)).IsZero()
		}
		if why, bad := m.wiped[[2]string{val, denom}]; bad && vs.IsZero() && !S.TruncateInt().IsZero() {
			return "!wiped", fmt.Sprintf("%s on %s/%s panics with division by zero, and not by the recorded mechanism (complete slash, or dust against a huge total): %s", op, m.R.W.Name(val), denom, why)
		}
		if !S.TruncateInt().IsZero() && valTokensZero {
			return "zero-value-validator", fmt.Sprintf("%s on %s/%s panics with division by zero: the validator's stake in the asset is worth 0 (after a complete slash, or dust against a huge total) while %s delegator shares exist", op, m.R.W.Name(val), denom, S)
		}
	}
	// subshare-stuck: the delegator-share total of (validator, asset) is below one share, so tokens are
	// converted to shares 1:1 and a position holding less than one share can never cover 1 token
	insShares := res.IsErr("staking", 22, "insufficient delegation shares")
	insTokens := res.IsErr("alliance", 21, "insufficient tokens")
	if insShares && v != nil && v.HasInfo {
		S := decAmount(v.Info.TotalDelegatorShares, denom)
		if S.IsPositive() && S.TruncateInt().IsZero() {
			return "subshare-stuck", fmt.Sprintf("%s on %s/%s fails with %q: the validator's delegator-share total is %s (< 1), tokens are converted to shares 1:1 and the position, although worth >= 1 token, can never be undelegated", op, m.R.W.Name(val), denom, msg, S)
		}
	}
	if strings.Contains(msg, "insufficient funds") && strings.Contains(msg, "spendable balance") {
		// a single claim only brings in its own validator's pending rewards: it can fail where claiming
		// everything succeeds. The shortfall must be explained by one of the recorded C12 mechanisms.
		c12 := &MonC12{BaseMon{m.R}, m.R.rewardShadow()}
		if cause, why := c12.classify(s, msg); cause != "" {
			return "pool-short", fmt.Sprintf("%s fails with %q: the rewards pool cannot pay the claim made on the way (C12 %s: %s)", op, msg, cause, why)
		}
		if m.R.PoolShort {
			return "pool-short", fmt.Sprintf("%s fails with %q: the rewards pool cannot pay the claim made on the way (consequence of the recorded C12 findings)", op, msg)
		}
	}
	if huge && (strings.Contains(msg, "negative coin amount") || strings.Contains(msg, "overflow") || insTokens || insShares || strings.Contains(msg, "division by zero")) {
		return "precision-18dec", fmt.Sprintf("%s fails at magnitude >= 1e16 with %q: 18-digit share/token ratios lose base-unit precision", op, msg)
	}
	// the validator's fraction of the asset (validator shares / share total) has fewer than six
	// significant digits at 18 decimals: its token value is off by more than 1e-6 relatively
	if v != nil && v.HasInfo && !a.TotalValidatorShares.IsZero() && (insTokens || insShares || strings.Contains(msg, "negative coin amount")) {
		frac := decAmount(v.Info.ValidatorShares, denom).Quo(a.TotalValidatorShares)
		// error of the share count needed for an amount: the fraction vs/tvs is stored with 18 digits, so the
		// validator's token value (and every share count derived from it) is off by 1e-18/frac relatively;
		// when that exceeds the module's 0.01-share tolerance full exits start to fail
		S := decAmount(v.Info.TotalDelegatorShares, denom)
		shareErr := math.LegacyZeroDec()
		if frac.IsPositive() {
			shareErr = S.Quo(frac).Mul(math.LegacyNewDecWithPrec(1, 18))
		}
		if frac.LT(math.LegacyMustNewDecFromStr("0.000000000001")) || shareErr.GTE(math.LegacyNewDecWithPrec(1, 2)) {
			return "precision-18dec", fmt.Sprintf("%s fails with %q: the validator holds a fraction %s of the asset, which has too few significant digits at 18 decimals to convert between shares and tokens", op, msg, frac)
		}
	}
	if strings.Contains(msg, "overflow") && m.sharePriceExploded(s, denom) {
		return "precision-18dec", fmt.Sprintf("%s fails with %q: share/token ratio of %s exploded after take-rate drain/refill cycles", op, msg, denom)
	}
	return "", ""
}

func (m *MonC05) sharePriceExploded(s *Snap, denom string) bool {
	a := s.Assets[denom]
	if a.TotalTokens.IsZero() {
		return false
	}
	r := new(big.Rat).Quo(ratDec(a.TotalValidatorShares), ratInt(a.TotalTokens))
	return r.Cmp(new(big.Rat).SetFloat64(1e15)) > 0
}

func (m *MonC05) fail(idx int, op string, res TxResult, s *Snap, val, denom string, amount *big.Int) {
	rep := m.R.Rep
	cause, msg := m.classify(op, res, s, val, denom, amount)
	if cause == "!wiped" {
		rep.Violate("C05", "C05."+strings.Fields(op)[0], idx, "%s [%s]", msg, res.Stack)
		return
	}
	if cause != "" {
		rep.KnownFinding("C05", cause, "%s", msg)
		rep.Class("C05.known." + cause)
		return
	}
	rep.Violate("C05", "C05."+strings.Fields(op)[0], idx, "%s on (%s,%s) failed in a reachable state: %s [%s]", op, m.R.W.Name(val), denom, res, res.Stack)
}

func (m *MonC05) Probe(idx int) {
	rep := m.R.Rep
	w := m.R.W
	s := m.R.Cur
	if len(w.Actors) == 0 {
		return
	}
	ai := len(w.Actors) - 1
	nSlashed, nJailed := 0, 0
	for _, v := range s.Vals {
		if v.Jailed {
			nJailed++
		}
		if v.Exists && v.Status != stakingtypes.Bonded {
			nSlashed++
		}
	}
	rep.Class(fmt.Sprintf("C05.state/slashes%d/jailed%d/positions%d", min(m.R.Sh.SlashCount, 3), min(nJailed, 2), min(len(s.DelOrder), 5)))
	// enter: delegate 1 unit and a large amount of every started-or-not asset to every validator
	for vi := range w.Vals {
		val := w.Vals[vi].Oper.String()
		if v := s.Vals[val]; v == nil || !v.Exists {
			rep.Class("C05.validator-removed")
			continue // the property speaks of existing validators: this one was removed from x/staking
		}
		for _, den := range s.AssetOrder {
			for _, amt := range []string{"1", probeLarge(m.R.Cfg, den)} {
				if m.R.Halt {
					return
				}
				bal := s.Bal[w.Actors[ai].String()].AmountOf(den)
				ain, _ := math.NewIntFromString(amt)
				if bal.LT(ain) {
					continue // the probe account cannot afford it: not the module's fault
				}
				rep.Eval("C05.delegate")
				res := w.RunMsgOn(w.Ctx, m.R.buildMsg(Step{K: "delegate", A: ai, V: vi, Den: den, Amt: amt}), false)
				if !res.OK {
					m.fail(idx, "delegate "+amt+den, res, s, val, den, ain.BigInt())
				}
			}
		}
	}
	// claim and fully exit every existing position
	for _, pk := range s.DelOrder {
		if m.R.Halt {
			return
		}
		bal := s.Reported(pk)
		if v := s.Vals[pk.Val]; (v == nil || !v.HasInfo) && s.Dels[pk].Shares.IsPositive() {
			// a delegation whose validator record is gone (x/staking removed the validator): no balance can even be
			// reported for it; the delegator must still not be locked in
			a, vi := w.ActorIndex(pk.Del), w.ValIndex(pk.Val)
			if a >= 0 && vi >= 0 {
				rep.Eval("C05.orphaned-position")
				bctx, _ := w.Ctx.CacheContext()
				res := w.RunMsgOn(bctx, m.R.buildMsg(Step{K: "undelegate", A: a, V: vi, Den: pk.Denom, Amt: "1"}), true)
				if !res.OK {
					rep.Violate("C05", "C05.orphaned-position", idx, "delegation (%s,%s,%s) with %s shares outlived its validator's share record and can no longer be undelegated: %s", w.Name(pk.Del), w.Name(pk.Val), pk.Denom, s.Dels[pk].Shares, res)
					return
				}
			}
			continue
		}
		if bal.Sign() <= 0 {
			continue
		}
		a := w.ActorIndex(pk.Del)
		vi := w.ValIndex(pk.Val)
		if a < 0 || vi < 0 {
			continue
		}
		bctx, _ := w.Ctx.CacheContext()
		rep.Eval("C05.claim")
		res := w.RunMsgOn(bctx, m.R.buildMsg(Step{K: "claim", A: a, V: vi, Den: pk.Denom}), true)
		if !res.OK {
			m.fail(idx, "claim", res, s, pk.Val, pk.Denom, nil)
			if m.R.Halt || !strings.Contains(res.Err, "insufficient funds") {
				continue
			}
			// look past the recorded pool-short finding: can the position exit if the pool could pay?
			bctx, _ = w.Ctx.CacheContext()
			m.R.TopUpPool(bctx)
			rep.Class("C05.retried-with-solvent-pool")
			if r2 := w.RunMsgOn(bctx, m.R.buildMsg(Step{K: "claim", A: a, V: vi, Den: pk.Denom}), true); !r2.OK {
				m.fail(idx, "claim (pool made solvent)", r2, s, pk.Val, pk.Denom, nil)
				continue
			}
		}
		rep.Eval("C05.undelegate")
		res = w.RunMsgOn(bctx, m.R.buildMsg(Step{K: "undelegate", A: a, V: vi, Den: pk.Denom, Amt: bal.String()}), true)
		if !res.OK {
			// recorded finding rounder-balance: the reported balance is floor(value + 0.01); when that rounds
			// up, the full reported balance cannot be undelegated but balance-1 can
			roundedUp := new(big.Rat).SetInt(bal).Cmp(s.Value(pk)) > 0
			predicted := emulateUndelegateRefusal(s, pk, math.NewIntFromBigInt(bal))
			if (res.IsErr("staking", 22, "insufficient delegation shares") || res.IsErr("alliance", 21, "insufficient tokens")) && bal.Cmp(big.NewInt(1)) == 0 && roundedUp && predicted {
				rep.KnownFinding("C05", "rounder-balance", "the position (%s,%s,%s) reports a balance of 1 for an exact value of %s; undelegating 1 fails with %q and nothing smaller can be undelegated", w.Name(pk.Del), w.Name(pk.Val), pk.Denom, ratStr(s.Value(pk)), res.Err)
				rep.Class("C05.known.rounder-balance")
				continue
			}
			if (res.IsErr("staking", 22, "insufficient delegation shares") || res.IsErr("alliance", 21, "insufficient tokens")) && bal.Cmp(big.NewInt(1)) > 0 {
				b2ctx, _ := w.Ctx.CacheContext()
				m.R.TopUpPool(b2ctx) // the retry must not depend on the pool's solvency (judged separately)
				r1 := w.RunMsgOn(b2ctx, m.R.buildMsg(Step{K: "claim", A: a, V: vi, Den: pk.Denom}), true)
				r2 := w.RunMsgOn(b2ctx, m.R.buildMsg(Step{K: "undelegate", A: a, V: vi, Den: pk.Denom, Amt: new(big.Int).Sub(bal, big.NewInt(1)).String()}), true)
				if os.Getenv("VMON_DEBUG") != "" {
					fmt.Printf("C05 retry: claim %s, undelegate(B-1) %s; value %s\n", r1, r2, ratStr(s.Value(pk)))
				}
				if r1.OK && r2.OK && predicted {
					rep.KnownFinding("C05", "rounder-balance", "undelegating the full reported balance %s of (%s,%s,%s) fails with %q although balance-1 succeeds: the reported balance is the exact value %s plus 0.01 rounded down", bal, w.Name(pk.Del), w.Name(pk.Val), pk.Denom, res.Err, ratStr(s.Value(pk)))
					rep.Class("C05.known.rounder-balance")
					continue
				}
			}
			m.fail(idx, "undelegate of the full reported balance "+bal.String(), res, s, pk.Val, pk.Denom, bal)
		}
	}
}

func probeLarge(c Config, den string) string {
	if sp := specOf(c, den); sp != nil {
		return sp.Mag
	}
	return "1000000"
}

// ModuleReported re-computes a position's reported token amount with the module's own 18-digit operations
// (GetDelegationTokens: shares/totalShares x (validatorShares/totalValidatorShares x totalTokens) + 0.01,
// truncated) on the independently decoded records. It can be one above the floor of the exact value + 0.01
// when the 18-digit roundings push a value such as 0.98999999... up to 0.99.
func ModuleReported(s *Snap, pk PosKey) *big.Int {
	d, ok := s.Dels[pk]
	v := s.Vals[pk.Val]
	a, okA := s.Assets[pk.Denom]
	if !ok || v == nil || !v.HasInfo || !okA {
		return new(big.Int)
	}
	vs := decAmount(v.Info.ValidatorShares, pk.Denom)
	valTokens := math.LegacyNewDecFromInt(a.TotalTokens)
	if !a.TotalValidatorShares.IsZero() {
		valTokens = vs.Quo(a.TotalValidatorShares).Mul(math.LegacyNewDecFromInt(a.TotalTokens))
	}
	S := decAmount(v.Info.TotalDelegatorShares, pk.Denom)
	tok := valTokens
	if !S.IsZero() {
		tok = d.Shares.Quo(S).Mul(valTokens)
	}
	return tok.Add(math.LegacyNewDecWithPrec(1, 2)).TruncateInt().BigInt()
}

// emulateUndelegateRefusal re-computes, with the module's own 18-digit operations applied to the
// independently decoded records, whether undelegating `amt` from the position is refused by the
// documented mechanism of rounder-balance (share count for the amount, truncated, exceeds the shares held;
// or the tokens recomputed from the shares, plus 0.01, rounded down, are below the amount).
func emulateUndelegateRefusal(s *Snap, pk PosKey, amt math.Int) bool {
	d, ok := s.Dels[pk]
	v := s.Vals[pk.Val]
	a, okA := s.Assets[pk.Denom]
	if !ok || v == nil || !v.HasInfo || !okA {
		return false
	}
	vs := decAmount(v.Info.ValidatorShares, pk.Denom)
	var valTokens math.LegacyDec
	if a.TotalValidatorShares.IsZero() {
		valTokens = math.LegacyNewDecFromInt(a.TotalTokens)
	} else {
		valTokens = vs.Quo(a.TotalValidatorShares).Mul(math.LegacyNewDecFromInt(a.TotalTokens))
	}
	S := decAmount(v.Info.TotalDelegatorShares, pk.Denom)
	if valTokens.IsZero() {
		return false // division by zero: another finding
	}
	var need math.LegacyDec
	if S.TruncateInt().IsZero() {
		need = math.LegacyNewDecFromInt(amt)
	} else {
		need = S.Quo(valTokens).MulInt(amt)
	}
	use := need
	switch {
	case d.Shares.Sub(need).Abs().LT(math.LegacyNewDecWithPrec(1, 2)):
		use = d.Shares
	case d.Shares.LT(need.TruncateDec()):
		return true
	case need.GT(d.Shares):
		use = d.Shares
	}
	var tok math.LegacyDec
	if S.IsZero() {
		tok = valTokens
	} else {
		tok = use.Quo(S).Mul(valTokens)
	}
	return amt.GT(tok.Add(math.LegacyNewDecWithPrec(1, 2)).TruncateInt())
}

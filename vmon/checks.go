package main

// checks.go — per-property check definitions: which profiles run how many histories in each tier,
// which monitors judge them, and which observations a run must have made to count as a pass.

import "time"

type ProfRun struct {
	Profile  string
	Quick    int
	Thorough int
}

type CheckDef struct {
	Prop        string
	Runs        []ProfRun
	Mons        func(r *Runner) []Monitor
	Required    []string // situation-class prefixes that must be observed at least once
	Rule        string
	Assumptions []string
	ProbeEvery  int
	Tweak       func(g *Gen, c *Config)
	Replays     int      // C19: number of additional replays of every history on sibling branches
	Scripts     []string // history index i (per profile) < len(Scripts) starts with scripted prefix Scripts[i]
	QuickWatch  time.Duration
	ThorWatch   time.Duration
}

func (d *CheckDef) Watchdog(tier string) time.Duration {
	if tier == "thorough" {
		if d.ThorWatch > 0 {
			return d.ThorWatch
		}
		return 3 * time.Hour
	}
	if d.QuickWatch > 0 {
		return d.QuickWatch
	}
	return 40 * time.Minute
}

var commonAssumptions = []string{
	"the world drives the real application through its public entry points (message router, Begin/EndBlocker of the module manager, staking hooks) with baseapp's transaction atomicity reproduced by CacheContext branches; ante handlers and tx decoding are not exercised",
	"only executions produced by the seeded generator and the scripted prefixes are decided; nothing is claimed about histories outside their support",
	"the exact-rational reference model and the error budgets of DESIGN.md section 4.2 are trusted",
}

func profiles() map[string]*Profile {
	ps := []*Profile{
		{Name: "core", Blocks: 60, MaxOps: 5, PSlash: 0.05, PDowntime: 0.02, PNative: 0.12, PGov: 0.03, PDonate: 0.03, PClaim: 0.12, Warmup: true},
		{Name: "core-long", Blocks: 160, MaxOps: 5, PSlash: 0.04, PDowntime: 0.02, PNative: 0.12, PGov: 0.03, PDonate: 0.02, PClaim: 0.12, Warmup: true},
		{Name: "noslash", Blocks: 60, MaxOps: 5, PNative: 0.08, PGov: 0.02, PClaim: 0.2, Warmup: true},
		{Name: "extreme", Blocks: 50, MaxOps: 5, Extreme: true, PSlash: 0.08, PDowntime: 0.03, PNative: 0.1, PGov: 0.03, PDonate: 0.03, PClaim: 0.1, BigGaps: true, HighTake: true},
		{Name: "gov", Blocks: 50, MaxOps: 5, PSlash: 0.03, PNative: 0.05, PGov: 0.45, PGovBad: 0.5, PClaim: 0.08, Decay: true, Warmup: true},
		{Name: "time", Blocks: 80, MaxOps: 3, PNative: 0.05, PGov: 0.06, PClaim: 0.1, Decay: true, Warmup: true, BigGaps: true, HighTake: true},
		{Name: "queue", Blocks: 60, MaxOps: 7, PSlash: 0.10, PDowntime: 0.03, PNative: 0.05, PGov: 0.01, PClaim: 0.05, Pack: true, NoTake: false},
		{Name: "native", Blocks: 70, MaxOps: 5, PSlash: 0.06, PDowntime: 0.05, PNative: 0.45, PGov: 0.04, PClaim: 0.05, Warmup: true, Decay: true},
	}
	out := map[string]*Profile{}
	for _, p := range ps {
		out[p.Name] = p
	}
	return out
}

// ---- scripted prefixes ---------------------------------------------------------------------------
// A scripted prefix is a short deterministic scenario that guarantees that the situations a property
// is about occur in every run; the random continuation follows it. Scripts may adjust the config.

type Script func(g *Gen, c *Config) []Step

func blk(dt time.Duration, fees string) Step {
	return Step{K: "block", Block: &BlockSpec{DtNs: int64(dt), Fees: fees}}
}

func scripts() map[string]Script {
	return map[string]Script{
		// an asset in warm-up is staked, claimed (nothing), and its start time passes during a quiet
		// period with no other trigger; then claims on it and on a started asset
		"warmup-quiet": func(g *Gen, c *Config) []Step {
			c.Assets = []AssetSpec{
				{Denom: "aaa", Weight: "0.5", WMin: "0", WMax: "10", TakeRate: "0", StartDelay: -int64(time.Hour), Mag: "1000000"},
				{Denom: "bbb", Weight: "1", WMin: "0", WMax: "10", TakeRate: "0", StartDelay: int64(2 * time.Hour), Mag: "1000000"},
			}
			c.Fund = "1000000000"
			fee := "3000000stake,500000uusd"
			return []Step{
				{K: "delegate", A: 0, V: 1, Den: "aaa", Amt: "5000000"},
				{K: "delegate", A: 1, V: 1, Den: "bbb", Amt: "7000000"},
				{K: "delegate", A: 1, V: 2, Den: "bbb", Amt: "1000000"},
				blk(time.Minute, fee),
				blk(time.Minute, fee),
				{K: "claim", A: 1, V: 1, Den: "bbb"},
				{K: "claim", A: 0, V: 1, Den: "aaa"},
				{K: "delegate", A: 1, V: 1, Den: "bbb", Amt: "1000"},
				blk(time.Minute, fee),
				// quiet blocks around the start time of bbb (T0+2h): -1ns, =, +1ns, then two more quiet ones
				blk(2*time.Hour-3*time.Minute-1, fee),
				blk(1, fee),
				blk(1, fee),
				blk(time.Minute, fee),
				blk(time.Minute, fee),
				{K: "claim", A: 1, V: 1, Den: "bbb"},
				{K: "claim", A: 0, V: 1, Den: "aaa"},
				blk(time.Minute, fee),
			}
		},
		// bucket-slash: one delegator has several pending undelegations from one validator in one queue bucket
		// (same block) with amounts whose 5% are not whole; a double-sign slash then reduces them together, other
		// delegators' entries and entries of another validator share the block; everything matures afterwards
		"bucket-slash": func(g *Gen, c *Config) []Step {
			c.Assets = []AssetSpec{
				{Denom: "aaa", Weight: "0.5", WMin: "0", WMax: "10", TakeRate: "0", StartDelay: -int64(time.Hour), Mag: "1000000"},
				{Denom: "bbb", Weight: "1", WMin: "0", WMax: "10", TakeRate: "0", StartDelay: -int64(time.Hour), Mag: "1000000"},
			}
			c.Fund = "1000000000"
			c.SlashDouble = "0.05"
			c.UnbondingNs = int64(time.Hour)
			fee := "2000000stake"
			return []Step{
				{K: "delegate", A: 0, V: 1, Den: "aaa", Amt: "100000"},
				{K: "delegate", A: 0, V: 1, Den: "bbb", Amt: "100000"},
				{K: "delegate", A: 0, V: 2, Den: "aaa", Amt: "100000"},
				{K: "delegate", A: 1, V: 1, Den: "aaa", Amt: "50000"},
				blk(6*time.Second, fee),
				{K: "undelegate", A: 0, V: 1, Den: "aaa", Amt: "333"},
				{K: "undelegate", A: 0, V: 1, Den: "aaa", Amt: "333"},
				{K: "undelegate", A: 0, V: 1, Den: "aaa", Amt: "19"},
				{K: "undelegate", A: 0, V: 1, Den: "bbb", Amt: "777"},
				{K: "undelegate", A: 0, V: 1, Den: "bbb", Amt: "1111"},
				{K: "undelegate", A: 0, V: 2, Den: "aaa", Amt: "333"},
				{K: "undelegate", A: 1, V: 1, Den: "aaa", Amt: "39"},
				{K: "undelegate", A: 1, V: 1, Den: "aaa", Amt: "39"},
				blk(6*time.Second, fee),
				{K: "block", Block: &BlockSpec{DtNs: int64(6 * time.Second), Fees: fee, Evidence: []Evidence{{Val: 1, HeightBack: 1}}}},
				blk(6*time.Second, fee),
				blk(time.Hour, fee),
				blk(6*time.Second, fee),
			}
		},
		// full-slash-unbonding: pending undelegations are slashed with fraction 1 (legal; the evidence carries more
		// power than the validator has now, so staking caps the effective fraction at exactly 1) down to zero and
		// then mature; one more entry is created after the slash and matures later
		"full-slash-unbonding": func(g *Gen, c *Config) []Step {
			c.Assets = []AssetSpec{
				{Denom: "aaa", Weight: "0.5", WMin: "0", WMax: "10", TakeRate: "0", StartDelay: -int64(time.Hour), Mag: "1000000"},
				{Denom: "bbb", Weight: "1", WMin: "0", WMax: "10", TakeRate: "0.001", StartDelay: -int64(time.Hour), Mag: "1000000"},
			}
			c.Fund = "1000000000"
			c.SlashDouble = "1"
			c.UnbondingNs = int64(time.Hour)
			fee := "2000000stake"
			return []Step{
				{K: "delegate", A: 0, V: 1, Den: "aaa", Amt: "100000"},
				{K: "delegate", A: 1, V: 1, Den: "bbb", Amt: "70000"},
				{K: "delegate", A: 1, V: 2, Den: "bbb", Amt: "70000"},
				{K: "delegate", A: 2, V: 2, Den: "aaa", Amt: "50000"},
				blk(6*time.Second, fee),
				{K: "undelegate", A: 0, V: 1, Den: "aaa", Amt: "4000"},
				{K: "undelegate", A: 1, V: 1, Den: "bbb", Amt: "500"},
				{K: "undelegate", A: 1, V: 2, Den: "bbb", Amt: "600"},
				blk(6*time.Second, fee),
				{K: "undelegate", A: 0, V: 1, Den: "aaa", Amt: "1"},
				blk(6*time.Second, fee),
				{K: "block", Block: &BlockSpec{DtNs: int64(6 * time.Second), Fees: fee, Evidence: []Evidence{{Val: 1, HeightBack: 1, Power: 1000000}}}},
				blk(6*time.Second, fee),
				{K: "undelegate", A: 2, V: 2, Den: "aaa", Amt: "700"},
				blk(time.Hour-30*time.Second, fee),
				blk(6*time.Second, fee),
				blk(6*time.Second, fee),
				blk(time.Minute, fee),
				blk(time.Hour, fee),
				blk(6*time.Second, fee),
			}
		},
		// donate-first: the very first thing that happens on the chain is a plain transfer to the module's custody
		// address and to the rewards pool address, before the module has done anything
		"donate-first": func(g *Gen, c *Config) []Step {
			fee := "2000000stake"
			d := c.Assets[0].Denom
			return []Step{
				{K: "donate", A: 0, Amt: "5" + d},
				{K: "donate", A: 1, Amt: "7stake"},
				blk(6*time.Second, fee),
				{K: "delegate", A: 0, V: 1, Den: d, Amt: c.Assets[0].Mag},
				{K: "ndelegate", A: 2, V: 2, Amt: "3000000"},
				blk(6*time.Second, fee),
				blk(6*time.Second, fee),
				{K: "claim", A: 0, V: 1, Den: d},
				blk(6*time.Second, fee),
			}
		},
		// validator-removed: alliance delegations on a validator on which the module holds no stake (zero-weight
		// asset, asset still in warm-up); its operator removes the whole self-delegation, the validator is jailed,
		// unbonds and x/staking removes it while the alliance delegations still exist. Afterwards the delegators
		// claim, undelegate part, redelegate away, and another validator is slashed
		"validator-removed": func(g *Gen, c *Config) []Step {
			c.Assets = []AssetSpec{
				{Denom: "aaa", Weight: "0", WMin: "0", WMax: "10", TakeRate: "0.001", StartDelay: -int64(time.Hour), Mag: "1000000"},
				{Denom: "bbb", Weight: "1", WMin: "0", WMax: "10", TakeRate: "0", StartDelay: int64(100 * time.Hour), Mag: "1000000"},
				{Denom: "ibc/ccc", Weight: "0.5", WMin: "0", WMax: "10", TakeRate: "0", StartDelay: -int64(time.Hour), Mag: "1000000"},
			}
			c.Fund = "1000000000"
			c.UnbondingNs = int64(time.Hour)
			c.TakeIntervalNs = int64(10 * time.Minute)
			fee := "2000000stake"
			return []Step{
				{K: "delegate", A: 0, V: 1, Den: "aaa", Amt: "1000000"},
				{K: "delegate", A: 1, V: 1, Den: "bbb", Amt: "333333"},
				{K: "delegate", A: 1, V: 2, Den: "aaa", Amt: "2000000"},
				{K: "delegate", A: 2, V: 2, Den: "ibc/ccc", Amt: "500000"},
				blk(6*time.Second, fee),
				blk(6*time.Second, fee),
				{K: "oper_exit", V: 1},
				blk(6*time.Second, fee),
				blk(6*time.Second, fee),
				blk(time.Hour, fee),
				blk(6*time.Second, fee),
				blk(6*time.Second, fee),
				{K: "claim", A: 0, V: 1, Den: "aaa"},
				{K: "undelegate", A: 0, V: 1, Den: "aaa", Amt: "1000"},
				{K: "redelegate", A: 1, V: 1, W: 2, Den: "bbb", Amt: "1000"},
				{K: "delegate", A: 3, V: 1, Den: "aaa", Amt: "5"},
				blk(6*time.Second, fee),
				{K: "block", Block: &BlockSpec{DtNs: int64(6 * time.Second), Fees: fee, Evidence: []Evidence{{Val: 2, HeightBack: 1}}}},
				blk(11*time.Minute, fee),
				{K: "undelegate", A: 0, V: 1, Den: "aaa", Amt: "bal"},
				blk(time.Hour, fee),
				blk(6*time.Second, fee),
			}
		},
		// delete-after-full-slash: the only validator holding an asset is slashed by exactly 100% (tokens stay staked,
		// validator shares are gone); governance then tries to update and delete that asset
		"delete-after-full-slash": func(g *Gen, c *Config) []Step {
			c.Assets = []AssetSpec{
				{Denom: "aaa", Weight: "0.5", WMin: "0", WMax: "10", TakeRate: "0", StartDelay: -int64(time.Hour), Mag: "1000000"},
				{Denom: "bbb", Weight: "1", WMin: "0", WMax: "10", TakeRate: "0", StartDelay: -int64(time.Hour), Mag: "1000000"},
			}
			c.Fund = "1000000000"
			c.SlashDouble = "1"
			fee := "2000000stake"
			sp := func(signer string) *GovSpec {
				return &GovSpec{Signer: signer, Denom: "aaa", Weight: "0.3", WMin: "0", WMax: "5", Take: "0.02", Rate: "1", KeepClock: true}
			}
			return []Step{
				{K: "delegate", A: 0, V: 1, Den: "aaa", Amt: "500000"},
				{K: "delegate", A: 1, V: 2, Den: "bbb", Amt: "700000"},
				blk(6*time.Second, fee),
				{K: "block", Block: &BlockSpec{DtNs: int64(6 * time.Second), Fees: fee, Evidence: []Evidence{{Val: 1, HeightBack: 1, Power: 1000000}}}},
				blk(6*time.Second, fee),
				{K: "gov_delete", A: 1, Gov: sp("actor")},
				{K: "gov_delete", A: 1, Gov: sp("auth")},
				{K: "legacy_delete", Gov: sp("auth")},
				{K: "gov_update", A: 1, Gov: sp("auth")},
				{K: "gov_delete", A: 1, Gov: sp("auth")},
				blk(6*time.Second, fee),
			}
		},
		// empty-whitelist: the chain runs for many claim intervals without any whitelisted asset (the only one is
		// deleted), then governance whitelists an asset with a high take rate and stake arrives
		"empty-whitelist": func(g *Gen, c *Config) []Step {
			c.Assets = []AssetSpec{{Denom: "aaa", Weight: "0.5", WMin: "0", WMax: "10", TakeRate: "0.5", StartDelay: -int64(time.Hour), Mag: "1000000"}}
			c.Fund = "1000000000"
			c.TakeIntervalNs = int64(time.Minute)
			c.RewardDelayNs = int64(time.Minute)
			fee := "2000000stake"
			del := &GovSpec{Signer: "auth", Denom: "aaa"}
			cr := &GovSpec{Signer: "auth", Denom: "bbb", Weight: "0.5", WMin: "0", WMax: "10", Take: "0.5", Rate: "1"}
			return []Step{
				blk(6*time.Second, fee),
				{K: "gov_delete", Gov: del},
				blk(6*time.Second, fee),
				blk(13*time.Minute, fee),
				blk(6*time.Second, fee),
				{K: "gov_create", Gov: cr},
				{K: "delegate", A: 0, V: 1, Den: "bbb", Amt: "1000000000"},
				blk(6*time.Second, fee),
				blk(61*time.Second, fee),
				blk(6*time.Second, fee),
				blk(61*time.Second, fee),
				blk(6*time.Second, fee),
			}
		},
		// jail-without-slash: downtime slashing fraction 0 (x/staking then calls no slash hook): a validator with
		// alliance stake is jailed for downtime in blocks without any other trigger, followed by quiet blocks
		"jail-without-slash": func(g *Gen, c *Config) []Step {
			c.SlashDowntime = "0"
			c.SignedWindow = 4
			// no decay and no take rate: nothing but the validator's status change may queue a rebalance
			c.Assets = []AssetSpec{
				{Denom: "aaa", Weight: "0.5", WMin: "0", WMax: "10", TakeRate: "0", StartDelay: -int64(time.Hour), Mag: "1000000"},
				{Denom: "bbb", Weight: "0.2", WMin: "0", WMax: "10", TakeRate: "0", StartDelay: -int64(time.Hour), Mag: "1000000"},
			}
			fee := "2000000stake"
			d := c.Assets[0].Denom
			st := []Step{
				{K: "delegate", A: 0, V: 1, Den: d, Amt: c.Assets[0].Mag},
				{K: "delegate", A: 1, V: 2, Den: d, Amt: c.Assets[0].Mag},
				{K: "ndelegate", A: 2, V: 3, Amt: "3000000"},
				blk(6*time.Second, fee),
				blk(6*time.Second, fee),
			}
			for i := 0; i < 8; i++ {
				st = append(st, Step{K: "block", Block: &BlockSpec{DtNs: int64(6 * time.Second), Fees: fee, Absent: []int{2}}})
			}
			st = append(st, blk(6*time.Second, fee), blk(6*time.Second, fee), blk(6*time.Second, fee))
			return st
		},
		// shrunk-share-total: the only validator holding an asset is slashed by 90 % for downtime four times
		// (jailed, unjailed, absent again): the asset's validator-share total shrinks to half a share while all 500
		// tokens stay staked; then stake arrives on other validators, part of it leaves again, rewards are claimed
		"shrunk-share-total": func(g *Gen, c *Config) []Step {
			c.Assets = []AssetSpec{
				{Denom: "aaa", Weight: "0.000001", WMin: "0", WMax: "10", TakeRate: "0", StartDelay: -int64(time.Hour), Mag: "1000000"},
				{Denom: "bbb", Weight: "0.000001", WMin: "0", WMax: "10", TakeRate: "0", StartDelay: -int64(time.Hour), Mag: "1000000"},
			}
			c.ValStake = []int64{30_000_000_000, 40_000_000_000, 50_000_000_000}
			c.Fund = "1000000000"
			c.SlashDowntime = "0.9"
			c.SignedWindow = 4
			c.JailNs = int64(10 * time.Second)
			c.UnbondingNs = int64(time.Hour)
			fee := "2000000stake"
			st := []Step{
				{K: "delegate", A: 0, V: 1, Den: "aaa", Amt: "500"},
				{K: "delegate", A: 1, V: 2, Den: "bbb", Amt: "700000"},
				blk(6*time.Second, fee), blk(6*time.Second, fee),
			}
			for round := 0; round < 4; round++ {
				for i := 0; i < 6; i++ {
					st = append(st, Step{K: "block", Block: &BlockSpec{DtNs: int64(6 * time.Second), Fees: fee, Absent: []int{1}}})
				}
				st = append(st, blk(20*time.Second, fee), Step{K: "unjail", V: 1}, blk(6*time.Second, fee), blk(6*time.Second, fee))
			}
			st = append(st,
				Step{K: "delegate", A: 2, V: 2, Den: "aaa", Amt: "100000"},
				blk(6*time.Second, fee),
				Step{K: "delegate", A: 4, V: 3, Den: "aaa", Amt: "7"},
				Step{K: "claim", A: 0, V: 1, Den: "aaa"},
				Step{K: "undelegate", A: 2, V: 2, Den: "aaa", Amt: "40000"},
				blk(6*time.Second, fee),
				Step{K: "redelegate", A: 2, V: 2, W: 1, Den: "aaa", Amt: "1000"},
				blk(6*time.Second, fee),
			)
			return st
		},
		// removed-redelegation-destination: a validator whose operator left long ago (unbonded, kept alive by one
		// native delegation) receives a redelegation; the delegator then undelegates everything from it and the
		// native delegator leaves too, so x/staking removes the validator while the redelegation entry is still
		// pending; then the source validator is slashed for a double sign
		"removed-redelegation-destination": func(g *Gen, c *Config) []Step {
			c.Assets = []AssetSpec{
				{Denom: "aaa", Weight: "0.5", WMin: "0", WMax: "10", TakeRate: "0", StartDelay: -int64(time.Hour), Mag: "1000000"},
				{Denom: "bbb", Weight: "1", WMin: "0", WMax: "10", TakeRate: "0.001", StartDelay: -int64(time.Hour), Mag: "1000000"},
			}
			c.Fund = "1000000000"
			c.UnbondingNs = int64(time.Hour)
			c.SlashDouble = "0.5"
			fee := "2000000stake"
			return []Step{
				{K: "delegate", A: 0, V: 1, Den: "aaa", Amt: "1000000"},
				{K: "delegate", A: 1, V: 3, Den: "bbb", Amt: "500000"},
				{K: "ndelegate", A: 4, V: 2, Amt: "2000000"},
				blk(6*time.Second, fee), blk(6*time.Second, fee),
				{K: "oper_exit", V: 2},
				blk(6*time.Second, fee), blk(time.Hour, fee), blk(6*time.Second, fee), blk(6*time.Second, fee),
				{K: "redelegate", A: 0, V: 1, W: 2, Den: "aaa", Amt: "400000"},
				{K: "undelegate", A: 0, V: 1, Den: "aaa", Amt: "1000"},
				blk(6*time.Second, fee),
				{K: "undelegate", A: 0, V: 2, Den: "aaa", Amt: "bal"},
				blk(6*time.Second, fee),
				{K: "nundelegate", A: 4, V: 2, Amt: "2000000"},
				blk(6*time.Second, fee), blk(6*time.Second, fee),
				{K: "block", Block: &BlockSpec{DtNs: int64(6 * time.Second), Fees: fee, Evidence: []Evidence{{Val: 1, HeightBack: 1}}}},
				blk(6*time.Second, fee), blk(6*time.Second, fee),
			}
		},
		// two-weight-changes: positions are created before their validator has any reward index; rewards in two
		// denoms accrue, governance changes an asset's weight (first snapshot), rewards accrue again, the weight
		// changes again (second snapshot), rewards accrue a third time; only then the positions claim
		"two-weight-changes": func(g *Gen, c *Config) []Step {
			c.Assets = []AssetSpec{
				{Denom: "aaa", Weight: "1", WMin: "0", WMax: "10", TakeRate: "0", StartDelay: -int64(time.Hour), Mag: "1000000"},
				{Denom: "bbb", Weight: "1", WMin: "0", WMax: "10", TakeRate: "0", StartDelay: -int64(time.Hour), Mag: "1000000"},
			}
			c.Fund = "1000000000"
			c.RewardDelayNs = 0
			fee := "3000000stake,500000uusd"
			up := func(w string) *GovSpec {
				return &GovSpec{Signer: "auth", Denom: "aaa", Weight: w, WMin: "0", WMax: "10", Take: "0", Rate: "1"}
			}
			return []Step{
				{K: "delegate", A: 0, V: 1, Den: "aaa", Amt: "5000000"},
				{K: "delegate", A: 1, V: 1, Den: "bbb", Amt: "5000000"},
				{K: "delegate", A: 2, V: 2, Den: "aaa", Amt: "1000000"},
				blk(6*time.Second, fee), blk(6*time.Second, fee), blk(6*time.Second, fee),
				{K: "gov_update", Gov: up("3")},
				blk(6*time.Second, fee), blk(6*time.Second, fee), blk(6*time.Second, fee),
				{K: "gov_update", Gov: up("0.5")},
				blk(6*time.Second, fee), blk(6*time.Second, fee), blk(6*time.Second, fee),
				{K: "claim", A: 0, V: 1, Den: "aaa"},
				{K: "claim", A: 1, V: 1, Den: "bbb"},
				{K: "claim", A: 2, V: 2, Den: "aaa"},
				blk(6*time.Second, fee),
			}
		},
		// drain-and-refill: two assets on the same validators, non-integer share ratios after a slash, every
		// delegator exits one asset completely (through different validators, leaving rounding dust behind),
		// the asset's staked total returns to zero, then it is staked again
		"drain-refill": func(g *Gen, c *Config) []Step {
			c.Assets = []AssetSpec{
				{Denom: "aaa", Weight: "0.5", WMin: "0", WMax: "10", TakeRate: "0.001", StartDelay: -int64(time.Hour), Mag: "1000"},
				{Denom: "bbb", Weight: "1", WMin: "0", WMax: "10", TakeRate: "0", StartDelay: -int64(time.Hour), Mag: "1000000"},
			}
			c.Fund = "1000000000"
			c.SlashDouble = "0.5"
			c.UnbondingNs = int64(time.Hour)
			c.TakeIntervalNs = int64(time.Minute)
			fee := "2000000stake"
			return []Step{
				{K: "delegate", A: 0, V: 1, Den: "aaa", Amt: "1000"},
				{K: "delegate", A: 1, V: 2, Den: "aaa", Amt: "333"},
				{K: "delegate", A: 2, V: 3, Den: "aaa", Amt: "77"},
				{K: "delegate", A: 3, V: 1, Den: "bbb", Amt: "823529"},
				{K: "delegate", A: 3, V: 2, Den: "bbb", Amt: "500000"},
				{K: "delegate", A: 4, V: 2, Den: "bbb", Amt: "1234567"},
				blk(6*time.Second, fee),
				{K: "block", Block: &BlockSpec{DtNs: int64(6 * time.Second), Fees: fee, Evidence: []Evidence{{Val: 3, HeightBack: 1}}}},
				blk(61*time.Second, fee),
				blk(61*time.Second, fee),
				// exits: partial ones first so that sub-unit remainders appear
				{K: "undelegate", A: 1, V: 2, Den: "aaa", Amt: "300"},
				{K: "undelegate", A: 2, V: 3, Den: "aaa", Amt: "20"},
				blk(61*time.Second, fee),
				{K: "undelegate", A: 2, V: 3, Den: "aaa", Amt: "bal"},
				{K: "undelegate", A: 1, V: 2, Den: "aaa", Amt: "bal"},
				blk(6*time.Second, fee),
				{K: "undelegate", A: 0, V: 1, Den: "aaa", Amt: "bal"},
				blk(6*time.Second, fee),
				{K: "delegate", A: 0, V: 2, Den: "aaa", Amt: "500"},
				{K: "delegate", A: 1, V: 1, Den: "aaa", Amt: "1"},
				blk(6*time.Second, fee),
			}
		},
		// drain-exact: after one 10% take-rate deduction three equal positions are worth exactly 900000 each while
		// the share/token ratio is 10/9 (not representable with 18 digits): every exit leaves validator-share
		// dust behind (V1 ends without any delegation, V3 keeps another asset), the last exit drains the asset's
		// staked total to exactly zero and every share record of it has to be reset; then a new cycle starts
		"drain-exact": func(g *Gen, c *Config) []Step {
			c.Assets = []AssetSpec{
				{Denom: "aaa", Weight: "0.5", WMin: "0", WMax: "10", TakeRate: "0.1", StartDelay: -int64(time.Hour), Mag: "1000000000000"},
				{Denom: "bbb", Weight: "1", WMin: "0", WMax: "10", TakeRate: "0", StartDelay: -int64(time.Hour), Mag: "1000000"},
			}
			c.Fund = "1000000000000000"
			c.UnbondingNs = int64(time.Hour)
			c.TakeIntervalNs = int64(time.Minute)
			fee := "2000000stake"
			upd := &GovSpec{Signer: "auth", Denom: "aaa", Weight: "0.5", WMin: "0", WMax: "10", Take: "0", Rate: "1"}
			return []Step{
				{K: "delegate", A: 0, V: 1, Den: "aaa", Amt: "1000000000000"},
				{K: "delegate", A: 1, V: 2, Den: "aaa", Amt: "1000000000000"},
				{K: "delegate", A: 2, V: 3, Den: "aaa", Amt: "1000000000000"},
				{K: "delegate", A: 3, V: 2, Den: "bbb", Amt: "823529"},
				{K: "delegate", A: 4, V: 3, Den: "bbb", Amt: "1234567"},
				blk(61*time.Second, fee),
				blk(6*time.Second, fee), // the end-of-block at T0+61s deducts 10%
				{K: "gov_update", Gov: upd},
				blk(6*time.Second, fee),
				{K: "undelegate", A: 0, V: 1, Den: "aaa", Amt: "bal"},
				{K: "undelegate", A: 2, V: 3, Den: "aaa", Amt: "bal"},
				blk(6*time.Second, fee),
				{K: "undelegate", A: 1, V: 2, Den: "aaa", Amt: "bal"},
				blk(6*time.Second, fee),
				{K: "delegate", A: 0, V: 2, Den: "aaa", Amt: "500"},
				{K: "delegate", A: 1, V: 1, Den: "aaa", Amt: "7"},
				blk(6*time.Second, fee),
			}
		},
		// drain-slashed: zero-weight assets (no module stake, validator tokens stay whole millions so that the
		// effective slash fractions are exactly the configured ones), V1 slashed 50% for downtime and V2 75% for
		// a double sign: one validator share is then worth exactly 3 tokens, positions are worth whole tokens,
		// each complete exit leaves validator-share dust that survives, and the last exit drains the asset
		"drain-slashed": drainSlashed(false),
		"drain-slashed-2": drainSlashed(true),
		// dust-cohabitant: a large and a one-unit position share V2, which is then slashed by exactly 75% (zero-weight
		// assets: no module stake, the effective fraction is the configured one): V2's stake is worth 400000.52,
		// the large delegator exits with its reported 400000 and leaves 0.52 of a token behind for the one-unit
		// position, which keeps its delegator share; entering and leaving V2 must keep working afterwards
		"dust-cohabitant": func(g *Gen, c *Config) []Step {
			c.NVals = 4
			c.ValStake = []int64{3_000_000, 4_000_000, 5_000_000, 6_000_000}
			c.Assets = []AssetSpec{
				{Denom: "aaa", Weight: "0", WMin: "0", WMax: "10", TakeRate: "0", StartDelay: -int64(time.Hour), Mag: "1000000"},
				{Denom: "bbb", Weight: "0", WMin: "0", WMax: "10", TakeRate: "0", StartDelay: -int64(time.Hour), Mag: "1000000"},
			}
			c.Fund = "10000000000"
			c.UnbondingNs = int64(time.Hour)
			c.SlashDouble = "0.75"
			fee := "2000000stake"
			return []Step{
				{K: "delegate", A: 0, V: 1, Den: "aaa", Amt: "1000000"},
				{K: "delegate", A: 1, V: 2, Den: "aaa", Amt: "1000000"},
				{K: "delegate", A: 3, V: 2, Den: "aaa", Amt: "1"},
				{K: "delegate", A: 4, V: 4, Den: "bbb", Amt: "500000"},
				blk(6*time.Second, fee), blk(6*time.Second, fee),
				{K: "block", Block: &BlockSpec{DtNs: int64(6 * time.Second), Fees: fee, Evidence: []Evidence{{Val: 2, HeightBack: 1}}}},
				blk(6*time.Second, fee),
				{K: "undelegate", A: 1, V: 2, Den: "aaa", Amt: "bal"},
				blk(6*time.Second, fee), blk(6*time.Second, fee), blk(6*time.Second, fee), blk(6*time.Second, fee),
				{K: "delegate", A: 2, V: 2, Den: "aaa", Amt: "500"},
				{K: "undelegate", A: 2, V: 2, Den: "aaa", Amt: "bal"},
				blk(6*time.Second, fee),
			}
		},
		// late-decay-config: an asset is whitelisted with the neutral change rate 1 but a one-minute interval; a
		// month later governance sets a growth rate of 1.1 per minute: the intervals count from that moment
		// (two of them in the following blocks), not from the month before
		"late-decay-config": func(g *Gen, c *Config) []Step {
			c.Assets = []AssetSpec{
				{Denom: "aaa", Weight: "0.5", WMin: "0", WMax: "10", TakeRate: "0", StartDelay: -int64(time.Hour), ChangeRate: "1", ChangeInterval: int64(time.Minute), Mag: "1000000"},
				{Denom: "bbb", Weight: "1", WMin: "0", WMax: "10", TakeRate: "0", StartDelay: -int64(time.Hour), Mag: "1000000"},
			}
			c.Fund = "1000000000"
			fee := "2000000stake"
			return []Step{
				{K: "delegate", A: 0, V: 1, Den: "aaa", Amt: "500000"},
				{K: "delegate", A: 1, V: 2, Den: "bbb", Amt: "700000"},
				blk(6*time.Second, fee),
				blk(30*24*time.Hour, fee),
				blk(6*time.Second, fee),
				{K: "gov_update", Gov: &GovSpec{Signer: "auth", Denom: "aaa", Weight: "0.5", WMin: "0", WMax: "10", Take: "0", Rate: "1.1", Interval: int64(time.Minute)}},
				blk(6*time.Second, fee),
				blk(2*time.Minute, fee),
				{K: "claim", A: 0, V: 1, Den: "aaa"},
				blk(6*time.Second, fee),
			}
		},
		"drain-dust-a": drainDust(false),
		"drain-dust-b": drainDust(true),
		// gov-table: every governance message x every signer kind with otherwise valid fields, in the asset
		// states absent / empty / staked, plus the three legacy contents (with and without ValidateBasic)
		"gov-table": func(g *Gen, c *Config) []Step {
			c.Assets = []AssetSpec{{Denom: "aaa", Weight: "0.5", WMin: "0", WMax: "10", TakeRate: "0.01", StartDelay: -int64(time.Hour), Mag: "1000000"}}
			c.Fund = "1000000000"
			var st []Step
			signers := []string{"actor", "mod", "pool", "distr", "empty", "garbage", "auth"}
			spec := func(signer, denom string) *GovSpec {
				return &GovSpec{Signer: signer, Denom: denom, Weight: "0.3", WMin: "0.1", WMax: "5", Take: "0.02", Rate: "0.99", Interval: int64(time.Hour), DelayNs: int64(time.Hour), TakeIvlNs: int64(time.Minute), KeepClock: true}
			}
			st = append(st, Step{K: "delegate", A: 0, V: 1, Den: "aaa", Amt: "500000"}, blk(6*time.Second, "1000000stake"))
			for _, sg := range signers {
				st = append(st,
					Step{K: "gov_create", A: 1, Gov: spec(sg, "ddd")},  // absent -> created only by the authority
					Step{K: "gov_create", A: 1, Gov: spec(sg, "aaa")},  // duplicate
					Step{K: "gov_update", A: 1, Gov: spec(sg, "aaa")},  // staked asset
					Step{K: "gov_update", A: 1, Gov: spec(sg, "zzz")},  // absent asset
					Step{K: "gov_delete", A: 1, Gov: spec(sg, "aaa")},  // staked: never deletable
					Step{K: "gov_params", A: 1, Gov: spec(sg, "")},
				)
			}
			// boundary values of the asset predicate, signed by the authority: take rate exactly 1 and just below,
			// weight outside/at its range ends, negative values, range with min > max, rate 0
			bnd := func(k string, f func(*GovSpec)) Step {
				sp := spec("auth", "aaa")
				if k == "gov_create" {
					sp.Denom = "bnd"
				}
				f(sp)
				sp.Boundary = true
				return Step{K: k, A: 1, Gov: sp}
			}
			for _, k := range []string{"gov_update", "gov_create", "legacy_update"} {
				st = append(st,
					bnd(k, func(g *GovSpec) { g.Take = "1" }),
					bnd(k, func(g *GovSpec) { g.Take = "1.000000000000000001" }),
					bnd(k, func(g *GovSpec) { g.Take = "-0.000000000000000001" }),
					bnd(k, func(g *GovSpec) { g.Weight = "5.000000000000000001" }),
					bnd(k, func(g *GovSpec) { g.Weight = "0.099999999999999999" }),
					bnd(k, func(g *GovSpec) { g.WMin, g.WMax = "5", "0.1" }),
					bnd(k, func(g *GovSpec) { g.Weight = "-1" }),
					bnd(k, func(g *GovSpec) { g.Rate = "0" }),
					bnd(k, func(g *GovSpec) { g.Rate = "-1" }),
				)
				if k == "gov_create" {
					st = append(st, Step{K: "gov_delete", A: 1, Gov: spec("auth", "bnd")})
				}
			}
			// a negative change interval must never be stored, not even with rate 1 ("no decay") where it looks
			// harmless: a later update to a rate != 1 that keeps the interval would make it effective
			neg := func(k, rate string) Step {
				sp := spec("auth", "neg")
				sp.Rate, sp.Interval, sp.Boundary = rate, -int64(time.Hour), true
				return Step{K: k, A: 1, Gov: sp}
			}
			st = append(st, neg("gov_create", "1"), neg("gov_update", "1.5"),
				blk(2*time.Hour, "1000000stake"), blk(6*time.Second, "1000000stake"),
				Step{K: "gov_delete", A: 1, Gov: spec("auth", "neg")})
			st = append(st, blk(6*time.Second, "1000000stake"))
			for _, nv := range []bool{false, true} {
				a, b, d := spec("auth", "eee"), spec("auth", "eee"), spec("auth", "eee")
				a.NoValidate, b.NoValidate, d.NoValidate = nv, nv, nv
				b.Weight = "0.4"
				st = append(st, Step{K: "legacy_create", Gov: a}, Step{K: "legacy_create", Gov: a}, Step{K: "legacy_update", Gov: b}, Step{K: "legacy_delete", Gov: d}, Step{K: "legacy_delete", Gov: d})
			}
			// the authority can delete the empty asset ddd, nobody else could
			for _, sg := range signers {
				st = append(st, Step{K: "gov_delete", A: 1, Gov: spec(sg, "ddd")})
			}
			st = append(st, blk(6*time.Second, "1000000stake"))
			return st
		},
		// a native delegator removes the whole delegation, followed by quiet blocks
		"native-full-exit": func(g *Gen, c *Config) []Step {
			fee := "2000000stake"
			return []Step{
				{K: "delegate", A: 0, V: 1, Den: c.Assets[0].Denom, Amt: c.Assets[0].Mag},
				{K: "ndelegate", A: 2, V: 2, Amt: "3000000"},
				blk(6*time.Second, fee),
				blk(6*time.Second, fee),
				{K: "nundelegate", A: 2, V: 2, Amt: "3000000"},
				blk(6*time.Second, fee),
				blk(6*time.Second, fee),
				blk(6*time.Second, fee),
			}
		},
	}
}


func checkDefs() map[string]*CheckDef {
	defs := []*CheckDef{
		{
			Prop: "C01",
			Scripts: []string{"bucket-slash"},
			Runs: []ProfRun{{"core", 48, 900}, {"queue", 48, 900}, {"extreme", 24, 450}, {"native", 16, 300}},
			Mons: func(r *Runner) []Monitor { return []Monitor{NewMonC01(r)} },
			Required: []string{"C01.payout", "C01.take-rate", "C01.slash-with-unbonding", "C01.slash-shared-bucket-fractional", "C01.donation"},
			Rule: "seeded random histories (profiles core/extreme/native: user ops, slashes via real evidence/downtime, take-rate, donations, hostile block spacing); after every transaction, slash callback, end-block and begin-block the custody balance of every asset denom is compared with staked total + pending unbondings (+ donations, + stranded rewards of the recorded finding); a situation class = kind of step that touched custody (tx kind, payout, take-rate deduction, slash with pending unbonding, donation)",
			Assumptions: commonAssumptions,
		},
		{
			Prop: "C03",
			Scripts: []string{"drain-refill", "drain-exact", "drain-slashed", "drain-slashed-2", "validator-removed", "drain-dust-a", "drain-dust-b"},
			ProbeEvery: 3,
			Runs: []ProfRun{{"core", 64, 1200}, {"extreme", 48, 900}, {"native", 16, 300}},
			Mons: func(r *Runner) []Monitor { return []Monitor{NewMonC03(r)} },
			Required: []string{"C03.slash", "C03.take-rate", "C03.tx.undelegate", "C03.tx.redelegate", "C03.validator-removed-with-delegations", "C03.drain-resets-foreign-dust"},
			Rule: "seeded random histories (core/extreme/native incl. validators leaving, joining and being removed by x/staking) and scripted drains with surviving share dust; after every step the share sums are recomputed from an independent decoder of the raw module store and compared exactly with the recorded totals, negatives and reset-on-drain are checked, and the module's registered invariants plus all SDK invariants (crisis) run every block; a situation class = step kind x slash-fraction class x drained-asset/take-rate situations",
			Assumptions: commonAssumptions,
		},
		{
			Prop: "C10",
			Scripts: []string{"warmup-quiet", "native-full-exit", "jail-without-slash"},
			Runs: []ProfRun{{"native", 64, 1200}, {"core", 32, 600}},
			Mons: func(r *Runner) []Monitor { return []Monitor{NewMonC10(r)} },
			Required: []string{"C10.quiet-block", "C10.trigger.slash", "C10.trigger.ndelegate", "C10.trigger.nundelegate", "C10.trigger.full-native-undelegation", "C10.trigger.left-bonded-set-without-slash"},
			Rule: "seeded random histories mixing alliance operations with native delegations, partial and full undelegations, native redelegations, real slashes, jailing/unjailing and warm-up expiry; after every end-of-block the target of every bonded validator is recomputed from the post-state independently of the module's code path and compared with the module's real staking delegation (tolerance 2 units); a situation class = (rebalance flag set before block end, number of non-bonded validators, warm-up assets present) plus the trigger kinds seen",
			Assumptions: commonAssumptions,
		},
		{
			Prop: "C11",
			Runs: []ProfRun{{"native", 48, 900}, {"core", 32, 600}, {"extreme", 16, 300}},
			Mons: func(r *Runner) []Monitor { return []Monitor{NewMonC11(r)} },
			Required: []string{"C11.rebalance-up", "C11.rebalance-down-or-burn", "C11.query.with-module-stake"},
			Rule: "seeded random histories with inflation disabled; after every alliance transaction the staking-denom supply net of module stake must be unchanged, after every end-of-block the module account must hold no staking-denom coins and the net supply may move only by what was burnt from the module account (+-1 unit per bonded validator of staking share rounding); every staking-denom transfer out of the module account must go to a staking pool or the rewards pool, mints must equal transfers into the staking pools; SupplyOf/TotalSupply (paginated and not) are compared with raw supply minus independently recomputed bonded module stake",
			Assumptions: commonAssumptions,
		},
		{
			Prop: "C16",
			Scripts: []string{"gov-table", "delete-after-full-slash"},
			Runs: []ProfRun{{"gov", 64, 1200}},
			Mons: func(r *Runner) []Monitor { return []Monitor{NewMonC16(r)} },
			Required: []string{"C16.gov_create/auth", "C16.gov_update/auth", "C16.gov_delete/auth", "C16.gov_params/auth", "C16.gov_update/actor", "C16.legacy_create", "C16.legacy_update", "C16.legacy_delete", "C16.boundary/gov_update/take=1", "C16.boundary/gov_create/take=1", "C16.gov_delete/auth/staked-no-shares"},
			Rule: "generated governance traffic: 4 messages and 3 legacy contents x signer in {authority, actor, module accounts, empty, malformed} x per-field values {nil, negative, 0, boundary, huge} x asset state {absent, empty, staked, decaying, warm-up}, interleaved with user operations; success implies signer = authority, failure implies byte-identical module store, stored-asset predicate after every step of every history; a situation class = (message kind, signer kind, asset state, accepted/rejected/panicked)",
			Assumptions: commonAssumptions,
		},
		{
			Prop: "C17",
			Scripts: []string{"gov-table", "full-slash-unbonding", "donate-first", "late-decay-config"},
			Runs: []ProfRun{{"gov", 64, 1200}, {"extreme", 24, 400}, {"time", 24, 400}},
			Mons: func(r *Runner) []Monitor { return []Monitor{NewMonC17(r)} },
			Required: []string{"C17.accepted.gov_params", "C17.accepted.gov_update", "C17.state/", "C17.matured-zero-entry", "C17.donate-before-first-use", "C17.growth-configured-long-after-last-change"},
			Rule: "every end-of-block of every history (profiles gov/extreme/time: configuration fuzz restricted to values the module's own handlers accepted on the main line, slashes, jailing, dust and drained assets, gaps from 1 ns to thousands of intervals) must return without error or panic (the recorded decay-overflow finding is matched only when the whole intervals elapsed since the later of the stored decay clock and the moment governance configured the decay explain the overflow; scripted prefix late-decay-config); a situation class = accepted parameter class (rate/interval/take-rate classes) and end-block state class (pending unbondings/redelegations, flag, jailed validator, claim-interval class)",
			Assumptions: commonAssumptions,
		},
	}
	defs = append(defs, queueDefs()...)
	defs = append(defs, timeDefs()...)
	defs = append(defs, valueDefs()...)
	defs = append(defs, lateDefs()...)
	out := map[string]*CheckDef{}
	for _, d := range defs {
		out[d.Prop] = d
	}
	return out
}

func queueDefs() []*CheckDef {
	return []*CheckDef{
		{
			Prop: "C02",
			Scripts: []string{"full-slash-unbonding"},
			Runs: []ProfRun{{"core", 64, 1200}, {"queue", 48, 900}},
			Mons: func(r *Runner) []Monitor { return []Monitor{NewMonC02(r)} },
			Required: []string{"C02.payout/", "C02.bucket/n3", "C02.bucket/n2/vals2", "C02.boundary/completion=blocktime-not-paid", "C02.boundary/completion=blocktime-1ns-paid", "C02.payout/slashed1", "C02.payout/zero-entry"},
			Rule: "seeded random histories with bucket packing (few delegators repeating undelegations in one block across validators and denoms), deadline-sniping block times (completion-1ns, =, +1ns) and real slashes while entries are pending; a reference list of pending unbondings is kept from successful undelegations and the C07 slash rule; at every end-of-block the custody payouts in the event log and the delegators' balance deltas must equal the matured reference entries exactly (strictly-later rule), and the raw queue and per-validator index (independent decoder) must equal the reference afterwards; a situation class = bucket packing shape, payout with/without prior slash, boundary relation",
			Assumptions: commonAssumptions,
		},
		{
			Prop: "C06",
			Runs: []ProfRun{{"core", 48, 900}, {"queue", 32, 600}, {"extreme", 16, 300}},
			Mons: func(r *Runner) []Monitor { return []Monitor{NewMonC06(r)} },
			ProbeEvery: 3,
			Required: []string{"C06.slash/f=1", "C06.slash/f>=0.5", "C06.slash/f<0.01", "C06.slash/"},
			Rule: "around every real slash callback (observed through the verif hook at callback entry) and around probe slashes of every created validator with rotating fractions on branches of every k-th visited state, the specified slash (validator shares x(1-f) in every asset, share totals reduced equally, redelegation destinations reduced per C07, order-agnostic) is applied to an exact-rational copy of the pre-state ledger and every position's value is compared with the real post-state within the 18-digit budget; a callback that fails is judged by what it left behind (x/staking only logs the error and slashes the validator anyway), except for the recorded pool-short cause; staked totals untouched, no third party loses; a situation class = (fraction class, positions on / off the slashed validator, assets, pending redelegations, real/probe)",
			Assumptions: commonAssumptions,
		},
		{
			Prop: "C07",
			Runs: []ProfRun{{"queue", 64, 1200}, {"core", 32, 600}, {"extreme", 16, 300}},
			Mons: func(r *Runner) []Monitor { return []Monitor{NewMonC07(r)} },
			ProbeEvery: 3,
			Required: []string{"C07.slash/", "C07.slash/f=1", "mixedValtrue", "mixedDentrue", "rel="},
			Rule: "around every real slash callback and probe slashes (every created validator, fractions 1e-18/0.05/0.5/1) on branches: every pending unbonding entry that originated from the slashed validator and has completion >= block time must be reduced by exactly floor(f*balance) once, every other entry must be byte-identical, the fee collector must receive exactly the sum of reductions, and redelegation destinations must match the exact-rational model; histories pack several undelegations/redelegations of one delegator into one block and snipe block times around completion; a situation class = (fraction class, reduced entries, bucket mixes validators, bucket mixes denoms, completion relation </=/>, pending redelegations, real/probe)",
			Assumptions: commonAssumptions,
		},
		{
			Prop: "C08",
			Scripts: []string{"removed-redelegation-destination"},
			Runs: []ProfRun{{"queue", 64, 1200}, {"core", 32, 600}, {"extreme", 16, 300}},
			Mons: func(r *Runner) []Monitor { return []Monitor{NewMonC08(r)} },
			ProbeEvery: 4,
			Required: []string{"C08.slash/", "dst-gone", "dst-shrunk", "stakefalse", "realtrue", "C08.destination-validator-removed"},
			Rule: "every real slash callback (return value observed through the verif hook: x/staking swallows it) and, on branches of every k-th visited state, the callback for every validator (including the genesis validator and validators without alliance stake) x fractions {1e-18, 0.01, 0.5, 1} must return nil without panic, leave the rebalance flag set and have applied the C06/C07 effects completely; a situation class = (fraction class, state of redelegation destinations none/intact/shrunk/gone, validator has alliance stake, pending unbondings, real/probe)",
			Assumptions: commonAssumptions,
		},
		{
			Prop: "C15",
			Runs: []ProfRun{{"queue", 64, 1200}, {"core", 32, 600}},
			Mons: func(r *Runner) []Monitor { return []Monitor{NewMonC15(r)} },
			ProbeEvery: 2,
			Required: []string{"C15.redelegate/dstExistedfalse", "C15.redelegate/dstExistedtrue", "C15.refused-transitive", "C15.probe/pending-inbound", "C15.matured", "C15.boundary/completion=blocktime-kept"},
			Rule: "every successful redelegation must move exactly the amount between the two positions (exact-rational values, 18-digit budget), pay nothing out, leave staked total and custody unchanged and record an entry completing at block time + unbonding period; after every step a probe on a branch tries to redelegate 1 unit out of every position: it must be refused as transitive exactly while a reference entry into that validator is pending; after every end-of-block the raw records, source index and time queue must equal the reference entries with completion >= block time; a situation class = (destination existed, full balance, chain hop) plus boundary relations",
			Assumptions: commonAssumptions,
		},
	}
}

func timeDefs() []*CheckDef {
	return []*CheckDef{
		{
			Prop: "C09",
			Scripts: []string{"empty-whitelist"},
			Runs: []ProfRun{{"time", 64, 1200}, {"core", 32, 600}, {"extreme", 16, 300}},
			Mons: func(r *Runner) []Monitor { return []Monitor{NewMonC09(r)} },
			Required: []string{"C09.deduct/n1", "C09.deduct/n2-9", "C09.deduct/n10+", "C09.clock/advanced-n-intervals", "C09.clock/no-eligible-asset", "C09.clock/empty-whitelist", "C09.skip/startedfalse", "C09.floor-at-one"},
			Rule: "around every end-of-block of seeded histories (rates 1e-18..0.999, claim intervals 1s..1h, gaps 1ns..1000 intervals, deposits and withdrawals between deductions, dust-only periods): trigger iff block time > clock + interval, n = floor((T-clock)/interval), new total = floor(T*(1-r)^n) against a 2048-bit reference power within the 18-digit budget (never to zero), fee-collector transfer in the event log equals the difference exactly, clock advances by exactly n intervals, every position shrinks by the common factor, assets before their start time or with rate 0 untouched, and a reference deposit log decides retroactive charging; a situation class = (intervals class, rate class, magnitude class) of deductions, skip reasons, clock outcomes",
			Assumptions: commonAssumptions,
		},
		{
			Prop: "C14",
			Scripts: []string{"warmup-quiet"},
			Runs: []ProfRun{{"time", 64, 1200}, {"gov", 48, 900}},
			Mons: func(r *Runner) []Monitor { r.NeedPending = true; return []Monitor{NewMonC14(r)} },
			Required: []string{"C14.decayed/n1", "C14.decayed/n>1", "C14.decayed/n>1/rate<1/min", "C14.not-due", "C14.warmup", "C14.weight-changed/tx gov_update", "C14.weight-changed/end-block", "C14.pending-at-change"},
			Rule: "after every step the weight of every asset must lie in its range; around every end-of-block, per asset with decay configured and due: weight' = clamp(weight*rate^n) against a 2048-bit reference within the 18-digit budget, decay clock advanced by exactly n intervals (never past block time), otherwise weight and clock untouched; in every step that stores a different weight (decay or governance) every validator for which x/distribution held >= 1 unit for the module (read on a branch before the step) must show its withdraw_rewards in that step's event log; warm-up assets are not charged and not initialised early; a situation class = (n=1/n>1, rate<1/>1, clamped min/max/in-range), not-due, weight change kind, rewards pending at change",
			Assumptions: commonAssumptions,
		},
	}
}

func valueDefs() []*CheckDef {
	return []*CheckDef{
		{
			Prop: "C13",
			Scripts: []string{"warmup-quiet", "two-weight-changes"},
			Runs: []ProfRun{{"noslash", 64, 1200}, {"core", 32, 600}},
			Mons: func(r *Runner) []Monitor { return []Monitor{NewMonC13(r)} },
			Required: []string{"C13.claim/explicit", "C13.claim/implicit-delegate", "C13.claim/implicit-undelegate", "C13.claim/implicit-redelegate", "C13.settle/delegate", "C13.settle/redelegate", "C13.not-retroactive/redelegate/existedfalse", "C13.not-retroactive/redelegate/existedtrue", "C13.not-retroactive/delegate/existedfalse", "C13.idempotent", "C13.claim/warmup", "C13.claim-across-two-snapshots"},
			Rule: "every withdraw_rewards(module, V) event of every step is attributed from the eager pre-step snapshot to the started assets on V by weight x share of the asset and pro rata to exact position values (entitlement at receipt); every explicit or implicit claim (identified from the typed events) of a position without a value-changing event since accrual must pay its accumulated entitlement within [-1-rho, +rho]; every stake-changing step on V with rewards pending for the module (read on a branch before the step) must settle them in that step; right after a delegate/redelegate a probe claim on a branch must pay nothing, an immediate second claim pays nothing, a claim changes no staked value, pool ledger conserved; a situation class = (claim kind, receipts, reward denoms), settle kind, probe kind x position existed",
			Assumptions: commonAssumptions,
		},
		{
			Prop: "C12",
			Runs: []ProfRun{{"noslash", 32, 600}, {"core", 48, 900}, {"extreme", 16, 300}},
			Mons: func(r *Runner) []Monitor { return []Monitor{NewMonC12(r)} },
			ProbeEvery: 3,
			Required: []string{"C12.claim-all/", "C12.slash-between-accrual-and-claim"},
			Rule: "after every k-th step, on branches of the live state: claim for EVERY delegation in three orders (store order, reverse, largest first); every claim must succeed; cumulative ledger from the event log: total paid by the pool <= total forwarded to it, per denom; solvency failures are matched against the recorded mechanisms using the exact entitlement E and the implemented index x current-value column Q of the reward shadow (slash-inflation, index-round-up) and are violations otherwise; slash-free profile must be strictly silent; a situation class = (positions, slashes so far, magnitude class)",
			Assumptions: commonAssumptions,
		},
		{
			Prop: "C04",
			Scripts: []string{"drain-refill", "drain-exact", "drain-slashed", "drain-slashed-2", "shrunk-share-total"},
			Runs: []ProfRun{{"core", 64, 1200}, {"queue", 32, 600}, {"extreme", 32, 600}},
			Mons: func(r *Runner) []Monitor { return []Monitor{NewMonC04(r)} },
			ProbeEvery: 2,
			Required: []string{"C04.delegate/", "C04.undelegate/", "C04.redelegate/", "C04.claim/", "C04.round-trip/", "C04.asset-share-total-below-one"},
			Rule: "every successful delegate/undelegate/redelegate/claim of seeded histories (share/token ratios after take-rate deductions and slashes, amounts from 1 unit against huge totals and vice versa): exact-rational value of EVERY position before and after; actor +-amount, everybody else 0, positions of other assets exactly unchanged, within one base unit plus the 18-digit budget scaled by the share price; reported values sum <= staked total + one per position after every step; round-trip probe on a branch (fresh delegation's reported balance <= amount); a situation class = (operation, magnitude class, number of positions)",
			Assumptions: commonAssumptions,
		},
		{
			Prop: "C05",
			Scripts: []string{"validator-removed", "drain-slashed", "drain-dust-a", "drain-refill", "dust-cohabitant"},
			Runs: []ProfRun{{"core", 32, 600}, {"queue", 16, 300}, {"extreme", 24, 450}, {"native", 8, 150}},
			Mons: func(r *Runner) []Monitor { return []Monitor{NewMonC12(r), NewMonC05(r)} },
			ProbeEvery: 4,
			Required: []string{"C05.state/slashes0", "C05.state/slashes1", "C05.state/slashes3", "C05.validator-removed", "C05.sub-unit-remainder-after-exit"},
			Rule: "after every k-th step of seeded histories (slashes of every fraction up to 100%, take-rate deductions, jailed/unbonded validators, warm-up) probe transactions on discarded branches: delegate 1 unit and a large amount of every asset to every validator, and for every position with a positive reported balance claim then undelegate the full reported balance, and undelegate from every delegation record whose validator record is gone; each must succeed; failures are matched against the recorded mechanisms (zero-value-validator, pool-short, precision-18dec, rounder-balance, subshare-stuck) by cause, not by symptom, and are violations otherwise: a division by zero on a (validator, asset) whose validator shares were removed by a user's exit while the positions staying there were worth more than 18-digit noise is not the recorded zero-value-validator finding (provenance of the state is tracked after every undelegate/redelegate; scripted prefix dust-cohabitant); a situation class = (slashes so far, jailed validators, number of positions)",
			Assumptions: commonAssumptions,
		},
	}
}

func drainSlashed(second bool) Script {
	return func(g *Gen, c *Config) []Step {
		c.NVals = 3
		c.ValStake = []int64{3_000_000, 4_000_000, 5_000_000}
		c.Assets = []AssetSpec{
			{Denom: "aaa", Weight: "0", WMin: "0", WMax: "10", TakeRate: "0", StartDelay: -int64(time.Hour), Mag: "1000000"},
			{Denom: "bbb", Weight: "0", WMin: "0", WMax: "10", TakeRate: "0", StartDelay: -int64(time.Hour), Mag: "1000000"},
		}
		c.Fund = "1000000000"
		c.UnbondingNs = int64(time.Hour)
		c.SlashDowntime = "0.5"
		c.SlashDouble = "0.75"
		c.SignedWindow = 4
		fee := "2000000stake"
		st := []Step{
			{K: "delegate", A: 0, V: 1, Den: "aaa", Amt: "1000000"},
			{K: "delegate", A: 1, V: 2, Den: "aaa", Amt: "2000000"},
			{K: "delegate", A: 4, V: 3, Den: "bbb", Amt: "500000"},
		}
		if second {
			st = append(st, Step{K: "delegate", A: 3, V: 1, Den: "bbb", Amt: "823529"})
		}
		st = append(st, blk(6*time.Second, fee), blk(6*time.Second, fee), blk(6*time.Second, fee), blk(6*time.Second, fee), blk(6*time.Second, fee))
		for i := 0; i < 6; i++ {
			st = append(st, Step{K: "block", Block: &BlockSpec{DtNs: int64(6 * time.Second), Fees: fee, Absent: []int{1}}})
		}
		st = append(st,
			Step{K: "block", Block: &BlockSpec{DtNs: int64(6 * time.Second), Fees: fee, Evidence: []Evidence{{Val: 2, HeightBack: 1}}}},
			blk(6*time.Second, fee),
			Step{K: "undelegate", A: 0, V: 1, Den: "aaa", Amt: "bal"},
			blk(6*time.Second, fee),
			Step{K: "undelegate", A: 1, V: 2, Den: "aaa", Amt: "bal"},
			blk(6*time.Second, fee),
			Step{K: "delegate", A: 1, V: 2, Den: "aaa", Amt: "500"},
			Step{K: "delegate", A: 0, V: 3, Den: "aaa", Amt: "7"},
			blk(6*time.Second, fee),
		)
		return st
	}
}

// drainDust: V2 and V3 are slashed by exactly one half; one of them (which one: variant) holds a position whose
// complete exit leaves validator-share dust worth less than 0.01 token behind, the other exits cleanly; then
// the large unslashed position on V1 exits and drains the asset to exactly zero: the dust record on the other
// validator has to be reset too. Two variants, so that the dust sits on a record that is not the first one in
// store order whatever that order is.
func drainDust(onV2 bool) Script {
	return func(g *Gen, c *Config) []Step {
		c.NVals = 4
		c.ValStake = []int64{3_000_000, 4_000_000, 5_000_000, 6_000_000}
		c.Assets = []AssetSpec{
			{Denom: "aaa", Weight: "0", WMin: "0", WMax: "10", TakeRate: "0", StartDelay: -int64(time.Hour), Mag: "1000000"},
			{Denom: "bbb", Weight: "0", WMin: "0", WMax: "10", TakeRate: "0", StartDelay: -int64(time.Hour), Mag: "1000000"},
		}
		c.Fund = "10000000000"
		c.UnbondingNs = int64(time.Hour)
		c.SlashDouble = "0.5"
		fee := "2000000stake"
		a2, a3 := "999", "2000001"
		if onV2 {
			a2, a3 = a3, a2
		}
		return []Step{
			{K: "delegate", A: 0, V: 1, Den: "aaa", Amt: "1000000000"},
			{K: "delegate", A: 1, V: 2, Den: "aaa", Amt: a2},
			{K: "delegate", A: 2, V: 3, Den: "aaa", Amt: a3},
			{K: "delegate", A: 4, V: 4, Den: "bbb", Amt: "500000"},
			blk(6*time.Second, fee), blk(6*time.Second, fee),
			{K: "block", Block: &BlockSpec{DtNs: int64(6 * time.Second), Fees: fee, Evidence: []Evidence{{Val: 2, HeightBack: 1}, {Val: 3, HeightBack: 1}}}},
			blk(6*time.Second, fee),
			{K: "undelegate", A: 1, V: 2, Den: "aaa", Amt: "bal"},
			{K: "undelegate", A: 2, V: 3, Den: "aaa", Amt: "bal"},
			blk(6*time.Second, fee),
			{K: "undelegate", A: 0, V: 1, Den: "aaa", Amt: "bal"},
			blk(6*time.Second, fee),
			{K: "delegate", A: 1, V: 2, Den: "aaa", Amt: "500"},
			{K: "delegate", A: 0, V: 3, Den: "aaa", Amt: "7"},
			blk(6*time.Second, fee),
		}
	}
}

func lateDefs() []*CheckDef {
	return []*CheckDef{
		{
			Prop: "C18",
			Runs: []ProfRun{{"queue", 40, 800}, {"core", 24, 500}, {"gov", 12, 250}, {"native", 8, 150}},
			Mons: func(r *Runner) []Monitor { return []Monitor{NewMonC18(r)} },
			Required: []string{"C18.boundary/", "C18.continuation-equal", "red1", "unb1", "snapshotstrue", "slashed-entriestrue"},
			Rule: "at every 5th block boundary (after end-of-block, before the next begin-block) of seeded histories: branch A = state as is, branch B = module store wiped and InitGenesis(JSON round trip of ExportGenesis(A)); the second export must be byte-identical; then the same 14-step continuation (user operations, blocks with evidence slashes of validators with pending entries, jumps over the unbonding period) runs on both in lock-step and after every step results, event digests, all account balances, supply, validator states, a fresh export and the unbonding/redelegation/delegation queries must be equal; a situation class = (pending unbondings, pending redelegations, merged records, weight snapshots, warm-up asset, partially slashed entries, rebalance flag set)",
			Assumptions: commonAssumptions,
		},
		{
			Prop: "C19",
			Replays: 2,
			Runs: []ProfRun{{"queue", 24, 500}, {"core", 24, 500}, {"gov", 8, 200}, {"extreme", 8, 150}},
			Mons: func(r *Runner) []Monitor { return []Monitor{NewMonC19(r)} },
			Required: []string{"C19.block/slashes1", "C19.block/slashes0/redels3", "matured1", "C19.replays-compared", "C19.replay-with-ghost-branches", "C19.rerun-in-fresh-process"},
			Rule: "every seeded history is executed and then replayed twice more (quick) from its explicit step list on sibling branches of the same post-genesis state within one process, one of the two replays with every step first executed on a branch that is thrown away (this block's end and the ends of two further blocks for a block step; for a transaction also the transactions that follow it in the block, on another discarded branch): nothing of a discarded branch may influence the real execution; a third of the histories that were not the first of their process are executed once more in a process of their own and must give the same digest; after every transaction the result and an event digest, after every block the begin/end-block results, event digests and a SHA-256 of the raw dump of the alliance, bank, staking, distribution, slashing and auth stores must be identical across replays (Go randomises map iteration per loop; addresses and scheduling differ between replays); thorough additionally runs histories concurrently in separate app instances under the race detector; the static clause of the property (source scan) is out of reach of runtime monitoring and not decided; a situation class = (slashes in block, pending redelegations, pending unbondings, matured entries)",
			Assumptions: append(append([]string{}, commonAssumptions...), "the static 'for all current and future code paths' clause of C19 (AST scan) is not decided by this technique"),
		},
		{
			Prop: "C20",
			Scripts: []string{"validator-removed"},
			Runs: []ProfRun{{"queue", 48, 900}, {"core", 32, 600}, {"extreme", 8, 150}},
			Mons: func(r *Runner) []Monitor { return []Monitor{NewMonC20(r)} },
			ProbeEvery: 3,
			Required: []string{"C20.unbonding-bucket/n3", "C20.unbonding-bucket/n2/vals2", "C20.unbonding-bucket/n2/vals1/denoms2", "C20.paginated/AllianceRedelegations", "C20.paginated/AlliancesDelegation", "C20.state/"},
			Rule: "after every k-th step of seeded histories (several entries per bucket, several validators/denoms per delegator, partially slashed entries): every gRPC query of the module for ALL filter arguments drawn from the live state (plus absent ones), unpaginated and stitched from key-based and offset-based pages of size 1 and 2 and with count_total, is compared as a multiset with an independent enumeration of the primary records (raw store decoder) and with the reference entries; reported balance: Undelegate(balance) succeeds and Undelegate(balance+1) fails on branches; contract bindings (alliance, delegation, delegation_rewards) compared field by field with the gRPC answers; a situation class = bucket shapes, paginated query kinds, state sizes",
			Assumptions: commonAssumptions,
		},
	}
}

package main

// mon_basic.go — invariant-at-a-hook monitors: C01 custody, C03 share ledger, C10 voting power,
// C11 virtual staking tokens, C16 governance gate / asset validity, C17 end-of-block totality.

import (
	"fmt"
	"math/big"
	"os"
	"strings"
	"time"

	"cosmossdk.io/math"
	sdk "github.com/cosmos/cosmos-sdk/types"
	"github.com/cosmos/cosmos-sdk/types/query"
	banktypes "github.com/cosmos/cosmos-sdk/x/bank/types"
	stakingtypes "github.com/cosmos/cosmos-sdk/x/staking/types"

	"github.com/terra-money/alliance/x/alliance"
	"github.com/terra-money/alliance/x/alliance/types"
)

// ================================================================================================
// C01 custody
// ================================================================================================

type MonC01 struct {
	BaseMon
	denoms        map[string]bool
	stranded      map[string]math.Int // accumulated, explained by the known finding
	slashStranded map[string]math.Int // stranded inside this block's slash callbacks (judged there, with the right pre-state)
}

func NewMonC01(r *Runner) *MonC01 {
	return &MonC01{BaseMon: BaseMon{r}, denoms: map[string]bool{}, stranded: map[string]math.Int{}, slashStranded: map[string]math.Int{}}
}
func (m *MonC01) Name() string { return "C01" }

func (m *MonC01) surplus(s *Snap, d string) math.Int {
	owed := s.UnbondingTotal(d)
	if a, ok := s.Assets[d]; ok {
		owed = owed.Add(a.TotalTokens)
	}
	return s.BalOf(m.R.W.ModAddr, d).Sub(owed)
}

func (m *MonC01) track(s *Snap) {
	for d := range s.Assets {
		m.denoms[d] = true
	}
	for _, b := range s.Unb {
		for _, e := range b.Entries {
			m.denoms[e.Denom] = true
		}
	}
}

// check compares the custody surplus before and after a step. ev are the step's events; donated is
// what the world itself sent in this step.
func (m *MonC01) check(where string, idx int, pre, post *Snap, ev *ParsedEvents, donated sdk.Coins) {
	rep := m.R.Rep
	m.track(pre)
	m.track(post)
	mod := m.R.W.ModAddr.String()
	pool := m.R.W.PoolAddr.String()
	for _, d := range sortedKeys(m.denoms) {
		if d == BondDenom {
			continue
		}
		rep.Eval("C01.custody")
		sp, sq := m.surplus(pre, d), m.surplus(post, d)
		delta := sq.Sub(sp)
		want := donated.AmountOf(d)
		// stranded rewards (known finding): withdrawn into custody but not forwarded to the pool
		strandedNow := math.ZeroInt()
		if ev != nil {
			in, out := math.ZeroInt(), math.ZeroInt()
			for _, wd := range ev.Withdraws {
				if wd.Delegator == mod {
					in = in.Add(wd.Coins.AmountOf(d))
				}
			}
			for _, t := range ev.Transfers {
				if t.From == mod && t.To == pool {
					out = out.Add(t.Coins.AmountOf(d))
				}
			}
			if in.GT(out) {
				strandedNow = in.Sub(out)
			}
		}
		cur, ok := m.stranded[d]
		if !ok {
			cur = math.ZeroInt()
		}
		allowed := cur.Add(strandedNow)
		for _, dn := range sortedKeys(m.R.W.Donated) {
			if dn == d {
				allowed = allowed.Add(m.R.W.Donated[dn])
			}
		}
		if os.Getenv("VMON_DEBUG") != "" && (!delta.IsZero() || !sq.IsZero()) {
			fmt.Printf("C01 %d %s %s: surplus %s -> %s want %s strandedNow %s allowed %s\n", idx, where, d, sp, sq, want, strandedNow, allowed)
		}
		if sq.IsNegative() {
			rep.Violate("C01", "C01.shortfall", idx, "%s: custody of %s is short by %s (bank %s)", where, d, sq.Neg(), post.BalOf(m.R.W.ModAddr, d))
			return
		}
		if !delta.Equal(want) {
			if delta.Equal(want.Add(strandedNow)) && strandedNow.IsPositive() && (m.strandedCause(pre, ev) || (intOf(m.slashStranded, d).IsPositive() && strandedNow.LTE(intOf(m.slashStranded, d)))) {
				m.stranded[d] = cur.Add(strandedNow)
				rep.KnownFinding("C01", "stranded-rewards", "%s: %s%s withdrawn for a validator without delegator shares stays in custody (not forwarded to the rewards pool)", where, strandedNow, d)
				rep.Class("C01.stranded")
				continue
			}
			rep.Violate("C01", "C01.drift", idx, "%s: custody surplus of %s moved by %s (expected %s): bank %s, staked total + unbondings %s", where, d, delta, want, post.BalOf(m.R.W.ModAddr, d), post.BalOf(m.R.W.ModAddr, d).Sub(sq))
			return
		}
		if sq.GT(allowed) && !strings.HasPrefix(where, "slash callback") {
			// (the slash callbacks of a block are judged before its end-of-block record is booked: delta only)
			rep.Violate("C01", "C01.surplus", idx, "%s: custody surplus of %s is %s, donations+stranded explain only %s", where, d, sq, allowed)
			return
		}
	}
}

// strandedCause: every module withdrawal that was not forwarded belongs to a validator whose
// delegator-share list was empty before the step (the documented mechanism of the known finding).
func (m *MonC01) strandedCause(pre *Snap, ev *ParsedEvents) bool {
	return strandedCause(m.R.W, pre, ev)
}

// strandedIn: coins of one denom withdrawn into the module account as staking rewards in this step
// and not forwarded to the rewards pool.
func strandedIn(w *World, ev *ParsedEvents, d string) math.Int {
	mod, pool := w.ModAddr.String(), w.PoolAddr.String()
	in, out := math.ZeroInt(), math.ZeroInt()
	for _, wd := range ev.Withdraws {
		if wd.Delegator == mod {
			in = in.Add(wd.Coins.AmountOf(d))
		}
	}
	for _, t := range ev.Transfers {
		if t.From == mod && t.To == pool {
			out = out.Add(t.Coins.AmountOf(d))
		}
	}
	if in.GT(out) {
		return in.Sub(out)
	}
	return math.ZeroInt()
}

func strandedCause(w *World, pre *Snap, ev *ParsedEvents) bool {
	mod := w.ModAddr.String()
	okAny := false
	for _, wd := range ev.Withdraws {
		if wd.Delegator != mod || wd.Coins.IsZero() {
			continue
		}
		v := pre.Vals[wd.Validator]
		if v == nil || !v.HasInfo || len(v.Info.TotalDelegatorShares) == 0 || zeroStakedWeight(pre, v) {
			okAny = true
		}
	}
	return okAny
}

func (m *MonC01) AfterTx(o *TxOutcome) {
	donated := sdk.NewCoins()
	if o.Step.K == "donate" && o.Res.OK {
		donated, _ = sdk.ParseCoinsNormalized(o.Step.Amt)
		m.R.Rep.Class("C01.donation")
	}
	if o.Res.OK {
		m.R.Rep.Class("C01.tx." + o.Step.K)
	}
	m.check("tx "+o.Step.K, o.Idx, o.Pre, o.Post, o.Ev, donated)
}

func (m *MonC01) AfterSlash(s *SlashRecord) {
	if s.Err != "" || s.Panic != "" {
		return // C08's business; the partially applied state is judged at block level
	}
	m.R.Rep.Class("C01.slash")
	for _, b := range s.Pre.Unb {
		// entries of one bucket (same delegator and completion time) that the slash reduces together: the
		// situation in which per-entry and per-bucket rounding differ
		type grp struct {
			n          int
			sum, parts math.Int
		}
		g := map[string]*grp{}
		for _, e := range b.Entries {
			if e.Val == s.Val {
				m.R.Rep.Class("C01.slash-with-unbonding")
				x := g[e.Denom]
				if x == nil {
					x = &grp{sum: math.ZeroInt(), parts: math.ZeroInt()}
					g[e.Denom] = x
				}
				x.n++
				x.sum = x.sum.Add(e.Amount)
				x.parts = x.parts.Add(s.Fraction.MulInt(e.Amount).TruncateInt())
			}
		}
		for _, x := range g {
			if x.n >= 2 {
				m.R.Rep.Class("C01.slash-shared-bucket")
				if !s.Fraction.MulInt(x.sum).TruncateInt().Equal(x.parts) {
					m.R.Rep.Class("C01.slash-shared-bucket-fractional")
				}
			}
		}
	}
	m.check("slash callback", s.Idx, s.Pre, s.Post, s.Ev, sdk.NewCoins())
}

func (m *MonC01) AfterBlock(o *BlockOutcome) {
	if len(o.Matured) > 0 {
		m.R.Rep.Class("C01.payout")
	}
	for _, d := range o.Pre.AssetOrder {
		if o.PostEnd.Assets[d].TotalTokens.LT(o.Pre.Assets[d].TotalTokens) {
			m.R.Rep.Class("C01.take-rate")
		}
	}
	if o.EndRes.Failed() {
		return
	}
	m.check("end-block", o.Idx, o.Pre, o.PostEnd, o.EndEv, sdk.NewCoins())
	if m.R.Halt {
		return
	}
	if o.tainted {
		return // a slash callback aborted half-way: judged by C08
	}
	m.slashStranded = map[string]math.Int{}
	for _, sl := range o.Slashes {
		if sl.Err != "" || sl.Panic != "" || !strandedCause(m.R.W, sl.Pre, sl.Ev) {
			continue
		}
		for d := range m.denoms {
			cur, ok := m.slashStranded[d]
			if !ok {
				cur = math.ZeroInt()
			}
			m.slashStranded[d] = cur.Add(strandedIn(m.R.W, sl.Ev, d))
		}
	}
	m.check("begin-block", o.Idx, o.PostEnd, o.PostBeg, o.BegEv, sdk.NewCoins())
	m.slashStranded = map[string]math.Int{}
}

// ================================================================================================
// C03 share ledger
// ================================================================================================

type MonC03 struct {
	BaseMon
}

func NewMonC03(r *Runner) *MonC03 { return &MonC03{BaseMon{r}} }
func (m *MonC03) Name() string    { return "C03" }

func (m *MonC03) check(where string, idx int, s *Snap) {
	rep := m.R.Rep
	rep.Eval("C03.ledger")
	if len(s.BadKeys) > 0 {
		rep.Violate("C03", "C03.decode", idx, "%s: undecodable/mismatching records: %v", where, s.BadKeys)
		return
	}
	// delegator shares
	sum := map[[2]string]math.LegacyDec{}
	for _, pk := range s.DelOrder {
		d := s.Dels[pk]
		if d.Shares.IsNil() || d.Shares.IsNegative() {
			rep.Violate("C03", "C03.negative", idx, "%s: delegation %s has shares %s", where, pk, d.Shares)
			return
		}
		k := [2]string{pk.Val, pk.Denom}
		if cur, ok := sum[k]; ok {
			sum[k] = cur.Add(d.Shares)
		} else {
			sum[k] = d.Shares
		}
	}
	valSum := map[string]math.LegacyDec{}
	for _, vo := range s.ValOrder {
		v := s.Vals[vo]
		if !v.HasInfo {
			continue
		}
		if !v.Exists && len(v.Info.TotalDelegatorShares) > 0 {
			rep.Class("C03.validator-removed-with-delegations") // x/staking removed it; its delegations live on
		}
		seen := map[string]bool{}
		for _, c := range v.Info.TotalDelegatorShares {
			if c.Amount.IsNegative() {
				rep.Violate("C03", "C03.negative", idx, "%s: validator %s total delegator shares %s", where, m.R.W.Name(vo), c)
				return
			}
			seen[c.Denom] = true
			want, ok := sum[[2]string{vo, c.Denom}]
			if !ok {
				want = math.LegacyZeroDec()
			}
			if !c.Amount.Equal(want) {
				rep.Violate("C03", "C03.delegator-sum", idx, "%s: validator %s denom %s: recorded delegator-share total %s, sum of delegations %s", where, m.R.W.Name(vo), c.Denom, c.Amount, want)
				return
			}
		}
		for _, c := range v.Info.ValidatorShares {
			if c.Amount.IsNegative() {
				rep.Violate("C03", "C03.negative", idx, "%s: validator %s validator shares %s", where, m.R.W.Name(vo), c)
				return
			}
			if cur, ok := valSum[c.Denom]; ok {
				valSum[c.Denom] = cur.Add(c.Amount)
			} else {
				valSum[c.Denom] = c.Amount
			}
		}
	}
	for k, want := range sum {
		v := s.Vals[k[0]]
		got := math.LegacyZeroDec()
		if v != nil && v.HasInfo {
			got = decAmount(v.Info.TotalDelegatorShares, k[1])
		}
		if !got.Equal(want) {
			rep.Violate("C03", "C03.delegator-sum", idx, "%s: validator %s denom %s: recorded delegator-share total %s, sum of delegations %s", where, m.R.W.Name(k[0]), k[1], got, want)
			return
		}
	}
	for _, d := range s.AssetOrder {
		a := s.Assets[d]
		got, ok := valSum[d]
		if !ok {
			got = math.LegacyZeroDec()
		}
		if a.TotalValidatorShares.IsNegative() || a.TotalTokens.IsNegative() {
			rep.Violate("C03", "C03.negative", idx, "%s: asset %s totals %s / %s", where, d, a.TotalTokens, a.TotalValidatorShares)
			return
		}
		if !a.TotalValidatorShares.Equal(got) {
			rep.Violate("C03", "C03.validator-sum", idx, "%s: asset %s: recorded share total %s, sum of validator shares %s", where, d, a.TotalValidatorShares, got)
			return
		}
		if a.TotalTokens.IsZero() {
			rep.Class("C03.drained-asset")
			if !got.IsZero() || !a.TotalValidatorShares.IsZero() {
				rep.Violate("C03", "C03.reset", idx, "%s: asset %s has zero staked total but share total %s / validator shares %s remain", where, d, a.TotalValidatorShares, got)
				return
			}
		}
	}
	for d, got := range valSum {
		if _, ok := s.Assets[d]; !ok && !got.IsZero() {
			// shares of a deleted asset left behind
			rep.Violate("C03", "C03.orphan", idx, "%s: validator shares %s of unknown asset %s", where, got, d)
			return
		}
	}
}

func (m *MonC03) moduleInvariants(where string, idx int, ctx sdk.Context) {
	rep := m.R.Rep
	rep.Eval("C03.module-invariants")
	func() {
		defer func() {
			if p := recover(); p != nil {
				rep.Violate("C03", "C03.module-invariants", idx, "%s: invariant evaluation panicked: %v", where, p)
			}
		}()
		if res, stop := alliance.RunAllInvariants(ctx, m.R.W.App.AllianceKeeper); stop {
			rep.Violate("C03", "C03.module-invariants", idx, "%s: %s", where, res)
		}
	}()
}

func (m *MonC03) AfterTx(o *TxOutcome) {
	if o.Res.OK {
		m.R.Rep.Class("C03.tx." + o.Step.K)
		// an exit that drains an asset while another validator still carries share dust of it
		if pa, ok := o.Pre.Assets[o.Step.Den]; ok && pa.TotalTokens.IsPositive() {
			if qa, ok := o.Post.Assets[o.Step.Den]; ok && qa.TotalTokens.IsZero() {
				for vo, v := range o.Pre.Vals {
					if vo != o.Val && v.HasInfo && decAmount(v.Info.ValidatorShares, o.Step.Den).IsPositive() {
						m.R.Rep.Class("C03.drain-resets-foreign-dust")
					}
				}
			}
		}
	}
	m.check("tx "+o.Step.K, o.Idx, o.Post)
	if !m.R.Halt {
		m.moduleInvariants("tx "+o.Step.K, o.Idx, m.R.W.Ctx)
	}
}
func (m *MonC03) AfterSlash(s *SlashRecord) {
	if s.Err != "" || s.Panic != "" {
		return
	}
	m.R.Rep.Class("C03.slash." + fracClass(s.Fraction))
	m.check("slash callback", s.Idx, s.Post)
}
// Probe: the ledger must also be consistent after a slash of any validator by any fraction from the
// current state (callback run on a branch).
func (m *MonC03) Probe(idx int) {
	fr := []string{"1", "0.5", "0.05", "0.999999999999999999"}
	for i := 1; i < len(m.R.W.Vals) && !m.R.Halt; i++ {
		f := math.LegacyMustNewDecFromStr(fr[(idx+i)%len(fr)])
		if !m.R.valExists(i) {
			continue // x/staking only slashes validators it knows
		}
		rec := m.R.SlashOn(m.R.W.Ctx, m.R.W.Vals[i].Oper, f, false)
		if rec.Err != "" || rec.Panic != "" {
			continue
		}
		m.R.Rep.Class("C03.probe-slash." + fracClass(f))
		m.check("probe slash of "+m.R.W.Name(rec.Val)+" by "+f.String(), idx, rec.Post)
	}
}

func (m *MonC03) AfterBlock(o *BlockOutcome) {
	for _, d := range o.Pre.AssetOrder {
		if o.PostEnd.Assets[d].TotalTokens.LT(o.Pre.Assets[d].TotalTokens) {
			m.R.Rep.Class("C03.take-rate")
		}
	}
	if o.EndRes.Failed() {
		return
	}
	m.check("end-block", o.Idx, o.PostEnd)
	if m.R.Halt {
		return
	}
	if o.tainted {
		return
	}
	m.check("begin-block", o.Idx, o.PostBeg)
	if m.R.Halt {
		return
	}
	m.moduleInvariants("block", o.Idx, m.R.W.Ctx)
	if m.R.Halt {
		return
	}
	// all registered SDK invariants (what crisis would assert; a panic there halts a chain)
	m.R.Rep.Eval("C03.crisis")
	func() {
		defer func() {
			if p := recover(); p != nil {
				msg := fmt.Sprint(p)
				if strings.Contains(msg, "alliance") {
					m.R.Rep.Violate("C03", "C03.crisis", o.Idx, "registered invariant broken: %.400s", msg)
				} else {
					m.R.Rep.Count("C03.crisis.foreign-invariant", 1)
				}
			}
		}()
		cctx, _ := m.R.W.Ctx.CacheContext()
		m.R.W.App.CrisisKeeper.AssertInvariants(cctx)
	}()
}

func fracClass(f math.LegacyDec) string {
	switch {
	case f.GTE(math.LegacyOneDec()):
		return "f=1"
	case f.GTE(math.LegacyMustNewDecFromStr("0.5")):
		return "f>=0.5"
	case f.GTE(math.LegacyMustNewDecFromStr("0.01")):
		return "f>=0.01"
	default:
		return "f<0.01"
	}
}

// ================================================================================================
// C17 end-of-block never fails
// ================================================================================================

type MonC17 struct {
	BaseMon
	cfgAt map[string]time.Time // block time at which governance last configured decay on an asset that had none in effect
}

func NewMonC17(r *Runner) *MonC17 { return &MonC17{BaseMon{r}, map[string]time.Time{}} }
func (m *MonC17) Name() string    { return "C17" }

func (m *MonC17) AfterTx(o *TxOutcome) {
	if o.Step.K == "donate" && o.Res.OK && o.Idx <= 1 {
		m.R.Rep.Class("C17.donate-before-first-use")
	}
	if strings.HasPrefix(o.Step.K, "gov_") || strings.HasPrefix(o.Step.K, "legacy_") {
		if o.Res.OK {
			m.R.Rep.Class("C17.accepted." + o.Step.K + "." + govClass(o.Step.Gov))
			// intervals count from the moment decay is configured (C14): remember that moment, so that the
			// recorded overflow finding is only matched when the intervals that really elapsed explain it
			if o.Step.K == "gov_update" || o.Step.K == "legacy_update" {
				a, ok1 := o.Pre.Assets[o.Step.Gov.Denom]
				b, ok2 := o.Post.Assets[o.Step.Gov.Denom]
				if ok1 && ok2 {
					was := a.RewardChangeInterval > 0 && !a.RewardChangeRate.Equal(math.LegacyOneDec())
					changed := !a.RewardChangeRate.Equal(b.RewardChangeRate) || a.RewardChangeInterval != b.RewardChangeInterval
					if !was && changed {
						m.cfgAt[o.Step.Gov.Denom] = o.Pre.Time
						if b.RewardChangeInterval > 0 && b.RewardChangeRate.GT(math.LegacyOneDec()) && o.Pre.Time.Sub(a.LastRewardChangeTime)/b.RewardChangeInterval > 10000 {
							m.R.Rep.Class("C17.growth-configured-long-after-last-change")
						}
					}
				}
			}
			if o.Step.K == "gov_delete" || o.Step.K == "legacy_delete" {
				delete(m.cfgAt, o.Step.Gov.Denom)
			}
		}
	}
}

func govClass(g *GovSpec) string {
	if g == nil {
		return ""
	}
	return fmt.Sprintf("rate%s/ivl%s/take%s", decClass(g.Rate), durClass(g.Interval), decClass(g.Take))
}

func decClass(s string) string {
	d := parseDec(s)
	switch {
	case d.IsNil():
		return "nil"
	case d.IsNegative():
		return "<0"
	case d.IsZero():
		return "0"
	case d.LT(math.LegacyOneDec()):
		return "(0,1)"
	case d.Equal(math.LegacyOneDec()):
		return "1"
	default:
		return ">1"
	}
}

func durClass(n int64) string {
	switch {
	case n < 0:
		return "<0"
	case n == 0:
		return "0"
	case n < int64(1e9):
		return "<1s"
	case n <= int64(3600e9):
		return "<=1h"
	default:
		return ">1h"
	}
}

func (m *MonC17) AfterBlock(o *BlockOutcome) {
	rep := m.R.Rep
	rep.Eval("C17.endblock")
	s := o.Pre
	cls := fmt.Sprintf("C17.state/unb%v/red%v/flag%v/jailed%v/ivl%s", len(s.Unb) > 0, len(s.Redels) > 0, s.Flag, anyJailed(s), durClass(int64(s.Params.TakeRateClaimInterval)))
	rep.Class(cls)
	for _, u := range o.Matured {
		if u.Amount.IsZero() {
			rep.Class("C17.matured-zero-entry")
		}
	}
	if !o.EndRes.Failed() {
		return
	}
	msg := o.EndRes.Err + o.EndRes.Panic
	// known finding: decay-overflow — an accepted change rate > 1 compounded over many intervals
	if strings.Contains(msg, "overflow") && m.decayOverflowCause(o.Pre) {
		rep.KnownFinding("C17", "decay-overflow", "end-of-block panics with %q: reward change rate > 1 compounded over the elapsed intervals overflows before the weight is clamped", msg)
		rep.Class("C17.known.decay-overflow")
		m.R.Halt = true // the chain would be halted; nothing meaningful follows
		rep.Count("halted.decay-overflow", 1)
		return
	}
	rep.Violate("C17", "C17.endblock", o.Idx, "end-of-block failed at height %d time %s: %s [%s]", o.Pre.Height, o.Pre.Time.Format("15:04:05.000000000"), msg, o.EndRes.Stack)
}

func anyJailed(s *Snap) bool {
	for _, v := range s.Vals {
		if v.Jailed {
			return true
		}
	}
	return false
}

// decayOverflowCause: some asset has rate > 1, an interval > 0 and so many whole intervals elapsed
// that rate^n exceeds the 256-bit range of the fixed-point type.
func (m *MonC17) decayOverflowCause(s *Snap) bool {
	for _, d := range s.AssetOrder {
		a := s.Assets[d]
		if a.RewardChangeInterval <= 0 || !a.RewardChangeRate.GT(math.LegacyOneDec()) {
			continue
		}
		if a.LastRewardChangeTime.Add(a.RewardChangeInterval).After(s.Time) {
			continue
		}
		clock := a.LastRewardChangeTime
		if t, ok := m.cfgAt[d]; ok && t.After(clock) {
			clock = t // a clock older than the configuration of the decay is not the recorded mechanism
		}
		n := int64(s.Time.Sub(clock) / a.RewardChangeInterval)
		// log2(rate^n) = n*log2(rate) >= ~190 bits overflows LegacyDec (max 2^256 / 10^18 scaled)
		f, _ := new(big.Float).SetRat(ratDec(a.RewardChangeRate)).Float64()
		bits := float64(n) * log2(f)
		if bits > 120 {
			return true
		}
	}
	return false
}

func log2(x float64) float64 {
	if x <= 0 {
		return 0
	}
	// ln(x)/ln(2) without importing math under a clashing name
	return bigLog2(x)
}

// ================================================================================================
// C10 voting power
// ================================================================================================

type MonC10 struct {
	BaseMon
	// slashes executed in the begin-block that preceded the end-block under judgement / in the current step
	slashesSinceBlock, slashesThisStep int
}

func NewMonC10(r *Runner) *MonC10 { return &MonC10{BaseMon: BaseMon{r}} }
func (m *MonC10) Name() string    { return "C10" }

// Targets recomputes, independently of the module's code path, the alliance-minted stake each bonded
// validator should carry, from a snapshot.
func Targets(s *Snap) (map[string]*big.Rat, *big.Rat) {
	native := ratInt(s.TotalBonded)
	for _, vo := range s.ValOrder {
		v := s.Vals[vo]
		if v.Exists && v.Status == stakingtypes.Bonded && v.HasModDel {
			native.Sub(native, v.ModTokens)
		}
	}
	out := map[string]*big.Rat{}
	for _, vo := range s.ValOrder {
		v := s.Vals[vo]
		if !v.Exists || v.Status != stakingtypes.Bonded {
			continue
		}
		out[vo] = new(big.Rat)
	}
	for _, d := range s.AssetOrder {
		a := s.Assets[d]
		if s.Time.Before(a.RewardStartTime) {
			continue
		}
		bondedShares := new(big.Rat)
		for _, vo := range s.ValOrder {
			v := s.Vals[vo]
			if v.HasInfo && v.Exists && v.Status == stakingtypes.Bonded {
				bondedShares.Add(bondedShares, ratDec(decAmount(v.Info.ValidatorShares, d)))
			}
		}
		// the property's denominator: the asset's share total minus shares on non-bonded validators
		denom := ratDec(a.TotalValidatorShares)
		for _, vo := range s.ValOrder {
			v := s.Vals[vo]
			if v.HasInfo && (!v.Exists || v.Status != stakingtypes.Bonded) {
				denom.Sub(denom, ratDec(decAmount(v.Info.ValidatorShares, d)))
			}
		}
		if denom.Sign() <= 0 {
			continue
		}
		for vo := range out {
			v := s.Vals[vo]
			if !v.HasInfo {
				continue
			}
			vs := ratDec(decAmount(v.Info.ValidatorShares, d))
			if vs.Sign() <= 0 {
				continue
			}
			x := new(big.Rat).Mul(ratDec(a.RewardWeight), native)
			x.Mul(x, vs)
			x.Quo(x, denom)
			out[vo].Add(out[vo], x)
		}
	}
	return out, native
}

func (m *MonC10) AfterTx(o *TxOutcome) {
	if o.Res.OK {
		m.R.Rep.Class("C10.trigger." + o.Step.K)
		if o.Step.K == "nundelegate" {
			if _, err := m.R.W.App.StakingKeeper.GetDelegation(m.R.W.Ctx, m.R.W.Actors[o.Step.A], m.R.W.Vals[o.Step.V].Oper); err != nil {
				m.R.Rep.Class("C10.trigger.full-native-undelegation")
			}
		}
	}
}

func (m *MonC10) AfterSlash(s *SlashRecord) {
	m.slashesThisStep++
	m.R.Rep.Class("C10.trigger.slash")
}

func (m *MonC10) AfterBlock(o *BlockOutcome) {
	rep := m.R.Rep
	if o.EndRes.Failed() {
		return // C17's business
	}
	s := o.PostEnd
	tg, native := Targets(s)
	nb := 0
	for _, vo := range s.ValOrder {
		v := s.Vals[vo]
		if !v.Exists {
			continue
		}
		if v.Status != stakingtypes.Bonded {
			nb++
			// non-bonded validators are not adjusted in this block
			pv := o.Pre.Vals[vo]
			if pv != nil && pv.Exists && pv.Status == stakingtypes.Bonded && pv.ModTokens.Sign() > 0 && m.slashesSinceBlock == 0 {
				rep.Class("C10.trigger.left-bonded-set-without-slash")
			}
			if pv != nil && pv.Exists && pv.Status != stakingtypes.Bonded && v.HasInfo {
				rep.Eval("C10.unbonded-untouched")
				if !pv.ModShares.Equal(v.ModShares) {
					rep.Violate("C10", "C10.unbonded-untouched", o.Idx, "validator %s is %s but its alliance-minted delegation changed from %s to %s shares in this block", m.R.W.Name(vo), v.Status, pv.ModShares, v.ModShares)
					return
				}
			}
			continue
		}
		want := tg[vo]
		if want.Sign() > 0 {
			rep.Sample(map[string]any{"observed": "end-of-block voting power", "height": s.Height, "validator": m.R.W.Name(vo), "alliance_stake": ratStr(v.ModTokens), "target": ratStr(want), "native_bonded": ratStr(native), "flag_before_block_end": o.Pre.Flag})
		}
		rep.Eval("C10.target")
		diff := new(big.Rat).Sub(v.ModTokens, want)
		// two base units, plus the target's sensitivity to the native bonded amount (sum of weight x
		// share fraction = target/native) times the sub-unit uncertainty of that amount: token values of
		// delegations are only defined up to one unit per bonded validator when exchange rates are not 1
		tol := big.NewRat(2, 1)
		if native.Sign() > 0 {
			sens := new(big.Rat).Quo(want, native)
			tol.Add(tol, sens.Mul(sens, ratI64(int64(len(tg))+1)))
		}
		if ratAbs(diff).Cmp(tol) > 0 {
			rep.Violate("C10", "C10.target", o.Idx, "end of block %d: bonded validator %s carries alliance stake %s, target %s (native bonded %s, flag before block end=%v)", s.Height, m.R.W.Name(vo), ratStr(v.ModTokens), ratStr(want), ratStr(native), o.Pre.Flag)
			return
		}
	}
	warm := 0
	for _, d := range s.AssetOrder {
		if s.Time.Before(s.Assets[d].RewardStartTime) {
			warm++
		}
	}
	m.slashesSinceBlock, m.slashesThisStep = m.slashesThisStep, 0
	rep.Class(fmt.Sprintf("C10.block/flag%v/nonbonded%d/warm%d", o.Pre.Flag, min(nb, 2), min(warm, 1)))
	if !o.Pre.Flag {
		rep.Class("C10.quiet-block")
	}
}

// ================================================================================================
// C11 virtual staking tokens
// ================================================================================================

type MonC11 struct {
	BaseMon
	strandedBond math.Int // staking-denom rewards stranded in the module account since the last burn
	donSeen      math.Int
}

func NewMonC11(r *Runner) *MonC11 { return &MonC11{BaseMon{r}, math.ZeroInt(), math.ZeroInt()} }
func (m *MonC11) Name() string    { return "C11" }

func netSupply(s *Snap) *big.Rat {
	n := ratInt(s.Supply.AmountOf(BondDenom))
	for _, v := range s.Vals {
		if v.Exists && v.HasModDel {
			n.Sub(n, v.ModTokens)
		}
	}
	return n
}

func bondedModStake(s *Snap) *big.Rat {
	n := new(big.Rat)
	for _, v := range s.Vals {
		if v.Exists && v.HasModDel && v.Status == stakingtypes.Bonded {
			n.Add(n, v.ModTokens)
		}
	}
	return n
}

func (m *MonC11) flows(where string, idx int, ev *ParsedEvents) {
	rep := m.R.Rep
	w := m.R.W
	mod := w.ModAddr.String()
	minted, toStaking := math.ZeroInt(), math.ZeroInt()
	for _, mt := range ev.Mints {
		if mt.To == mod {
			minted = minted.Add(mt.Coins.AmountOf(BondDenom))
		}
	}
	for _, t := range ev.Flows {
		amt := t.Coins.AmountOf(BondDenom)
		if t.From != mod || !amt.IsPositive() {
			continue
		}
		rep.Eval("C11.no-leak")
		switch t.To {
		case w.BondedAddr.String(), w.NotBondedAddr.String():
			toStaking = toStaking.Add(amt)
		case w.PoolAddr.String():
			// real reward coins in the staking denom being forwarded to the rewards pool
		case "":
			// burnt straight from the module account (end-of-block clean-up)
		default:
			rep.Violate("C11", "C11.no-leak", idx, "%s: %s%s transferred from the alliance module account to %s", where, amt, BondDenom, w.Name(t.To))
			return
		}
	}
	rep.Eval("C11.mint-delegate-pair")
	if !minted.Equal(toStaking) {
		rep.Violate("C11", "C11.mint-delegate-pair", idx, "%s: module minted %s%s but moved %s into the staking pools", where, minted, BondDenom, toStaking)
	}
	if minted.IsPositive() {
		rep.Class("C11.rebalance-up")
	}
}

func (m *MonC11) AfterTx(o *TxOutcome) {
	rep := m.R.Rep
	k := o.Step.K
	isAlliance := k == "delegate" || k == "undelegate" || k == "redelegate" || k == "claim" || strings.HasPrefix(k, "gov_") || strings.HasPrefix(k, "legacy_")
	if !isAlliance || !o.Res.OK {
		return
	}
	m.strandedBond = m.strandedBond.Add(strandedIn(m.R.W, o.Ev, BondDenom))
	rep.Eval("C11.net-supply.tx")
	d := new(big.Rat).Sub(netSupply(o.Post), netSupply(o.Pre))
	if d.Sign() != 0 {
		rep.Violate("C11", "C11.net-supply.tx", o.Idx, "alliance %s changed the staking-denom supply net of module stake by %s", k, ratStr(d))
		return
	}
	m.flows("tx "+k, o.Idx, o.Ev)
	if m.R.Halt {
		return
	}
	// no actor's staking-denom balance changes except by reward payouts from the rewards pool
	for _, a := range m.R.W.Actors {
		as := a.String()
		delta := o.Post.Bal[as].AmountOf(BondDenom).Sub(o.Pre.Bal[as].AmountOf(BondDenom))
		if delta.IsZero() {
			continue
		}
		rep.Eval("C11.user-balance")
		fromPool := math.ZeroInt()
		for _, t := range o.Ev.Transfers {
			if t.To == as && t.From == m.R.W.PoolAddr.String() {
				fromPool = fromPool.Add(t.Coins.AmountOf(BondDenom))
			}
		}
		if !delta.Equal(fromPool) {
			rep.Violate("C11", "C11.user-balance", o.Idx, "alliance %s changed %s's staking-denom balance by %s, of which only %s came from the rewards pool", k, m.R.W.Name(as), delta, fromPool)
			return
		}
	}
}

func (m *MonC11) AfterBlock(o *BlockOutcome) {
	rep := m.R.Rep
	if o.EndRes.Failed() {
		return
	}
	w := m.R.W
	// (b) module account holds no staking-denom coins once the block has ended
	rep.Eval("C11.module-balance-zero")
	strEnd := strandedIn(w, o.EndEv, BondDenom)
	if b := o.PostEnd.BalOf(w.ModAddr, BondDenom); !b.IsZero() {
		if b.Equal(strEnd) && strandedCause(w, o.Pre, o.EndEv) {
			rep.KnownFinding("C11", "stranded-rewards", "after end of block the module account still holds %s%s: staking rewards withdrawn during rebalancing for a validator nobody can be credited for are neither forwarded nor burnt in this block (and are burnt, although real, by the next one)", b, BondDenom)
			rep.Class("C11.known.stranded")
		} else {
			rep.Violate("C11", "C11.module-balance-zero", o.Idx, "after end of block %d the module account holds %s%s (stranded rewards of this block explain %s)", o.PostEnd.Height, b, BondDenom, strEnd)
			return
		}
	}
	// (a) net supply across the end-of-block: changes only by the burn of what sat in the module account,
	// and that must be explained by donations (burnt by design) or by the recorded stranded rewards
	preBal := o.Pre.BalOf(w.ModAddr, BondDenom)
	don, ok := w.Donated[BondDenom]
	if !ok {
		don = math.ZeroInt()
	}
	newDon := don.Sub(m.donSeen)
	m.donSeen = don
	rep.Eval("C11.module-balance-explained")
	if !preBal.Equal(newDon.Add(m.strandedBond)) {
		rep.Violate("C11", "C11.module-balance-explained", o.Idx, "before end of block %d the module account holds %s%s; donations since the last block end %s, recorded stranded rewards %s", o.Pre.Height, preBal, BondDenom, newDon, m.strandedBond)
		return
	}
	if m.strandedBond.IsPositive() {
		rep.KnownFinding("C11", "stranded-rewards", "end of block burns %s%s of real staking rewards that were stranded in the module account", m.strandedBond, BondDenom)
	}
	m.strandedBond = strEnd.Add(strandedIn(w, o.BegEv, BondDenom))
	d := new(big.Rat).Sub(netSupply(o.PostEnd), netSupply(o.Pre))
	d.Add(d, ratInt(preBal))
	nBonded := 0
	for _, v := range o.PostEnd.Vals {
		if v.Exists && v.Status == stakingtypes.Bonded {
			nBonded++
		}
	}
	rep.Eval("C11.net-supply.endblock")
	if ratAbs(d).Cmp(ratI64(int64(nBonded)+1)) > 0 {
		rep.Violate("C11", "C11.net-supply.endblock", o.Idx, "end of block %d changed the staking-denom supply net of module stake by %s (beyond the %s%s burnt from the module account)", o.PostEnd.Height, ratStr(d), preBal, BondDenom)
		return
	}
	if preBal.IsPositive() {
		rep.Class("C11.burn-of-module-balance")
	}
	m.flows("end-block", o.Idx, o.EndEv)
	if m.R.Halt {
		return
	}
	if o.tainted {
		return
	}
	m.flows("begin-block", o.Idx, o.BegEv)
	if m.R.Halt {
		return
	}
	// burns by rebalancing-down come from the bonded pool and equal the decrease of module stake
	if len(o.EndEv.Burns) > 0 {
		rep.Class("C11.rebalance-down-or-burn")
	}
	m.queries(o.Idx, o.PostBeg, w.Ctx)
	if m.R.Halt {
		return
	}
	// (e) staking module-accounts invariant: bonded pool = sum of bonded validator tokens
	rep.Eval("C11.staking-pools")
	bondedTokens := math.ZeroInt()
	for _, v := range o.PostEnd.Vals {
		if v.Exists && v.Status == stakingtypes.Bonded {
			bondedTokens = bondedTokens.Add(v.Tokens)
		}
	}
	if pool := o.PostEnd.BalOf(w.BondedAddr, BondDenom); !pool.Equal(bondedTokens) {
		rep.Violate("C11", "C11.staking-pools", o.Idx, "bonded pool holds %s but bonded validators' tokens sum to %s", pool, bondedTokens)
	}
}

// queries: SupplyOf / TotalSupply of the custom bank keeper report the supply net of bonded module stake.
func (m *MonC11) queries(idx int, s *Snap, ctx sdk.Context) {
	rep := m.R.Rep
	bk := m.R.W.App.BankKeeper
	raw := s.Supply
	bonded := bondedModStake(s)
	wantNet := new(big.Rat).Sub(ratInt(raw.AmountOf(BondDenom)), bonded)
	within1 := func(got math.Int) bool {
		d := new(big.Rat).Sub(ratInt(got), wantNet)
		return ratAbs(d).Cmp(ratI64(1)) <= 0
	}
	rep.Eval("C11.query.supply-of")
	res, err := bk.SupplyOf(ctx, &banktypes.QuerySupplyOfRequest{Denom: BondDenom})
	if err != nil {
		rep.Violate("C11", "C11.query.supply-of", idx, "SupplyOf(%s) failed: %v", BondDenom, err)
		return
	}
	if !within1(res.Amount.Amount) {
		rep.Violate("C11", "C11.query.supply-of", idx, "SupplyOf(%s)=%s, raw supply %s minus bonded module stake %s = %s", BondDenom, res.Amount.Amount, raw.AmountOf(BondDenom), ratStr(bonded), ratStr(wantNet))
		return
	}
	if bonded.Sign() > 0 {
		rep.Class("C11.query.with-module-stake")
	}
	for _, c := range raw {
		if c.Denom == BondDenom {
			continue
		}
		r2, err := bk.SupplyOf(ctx, &banktypes.QuerySupplyOfRequest{Denom: c.Denom})
		rep.Eval("C11.query.supply-of-other")
		if err != nil || !r2.Amount.Amount.Equal(c.Amount) {
			rep.Violate("C11", "C11.query.supply-of-other", idx, "SupplyOf(%s)=%v err=%v, raw %s", c.Denom, r2, err, c.Amount)
			return
		}
	}
	// TotalSupply unpaginated and stitched from pages
	collect := func(limit uint64) (sdk.Coins, error) {
		out := sdk.NewCoins()
		var key []byte
		for i := 0; i < 50; i++ {
			req := &banktypes.QueryTotalSupplyRequest{}
			if limit > 0 {
				req.Pagination = &query.PageRequest{Key: key, Limit: limit}
			}
			r, err := bk.TotalSupply(ctx, req)
			if err != nil {
				return nil, err
			}
			for _, c := range r.Supply {
				out = out.Add(c)
			}
			if limit == 0 || r.Pagination == nil || len(r.Pagination.NextKey) == 0 {
				break
			}
			key = r.Pagination.NextKey
		}
		return out, nil
	}
	for _, lim := range []uint64{0, 2} {
		rep.Eval("C11.query.total-supply")
		ts, err := collect(lim)
		if err != nil {
			// a page without the staking denom cannot subtract; report the failure as observed
			rep.Violate("C11", "C11.query.total-supply", idx, "TotalSupply(limit=%d) failed: %v", lim, err)
			return
		}
		for _, c := range raw {
			got := ts.AmountOf(c.Denom)
			if c.Denom == BondDenom {
				if !within1(got) {
					rep.Violate("C11", "C11.query.total-supply", idx, "TotalSupply(limit=%d) reports %s%s, expected %s", lim, got, BondDenom, ratStr(wantNet))
					return
				}
			} else if !got.Equal(c.Amount) {
				rep.Violate("C11", "C11.query.total-supply", idx, "TotalSupply(limit=%d) reports %s%s, raw supply %s", lim, got, c.Denom, c.Amount)
				return
			}
		}
	}
}

// ================================================================================================
// C16 governance gate and asset validity
// ================================================================================================

type MonC16 struct {
	BaseMon
}

func NewMonC16(r *Runner) *MonC16 { return &MonC16{BaseMon{r}} }
func (m *MonC16) Name() string    { return "C16" }

func (m *MonC16) assets(where string, idx int, s *Snap) {
	rep := m.R.Rep
	one := math.LegacyOneDec()
	for _, d := range s.AssetOrder {
		a := s.Assets[d]
		rep.Eval("C16.asset-predicate")
		bad := ""
		switch {
		case a.TakeRate.IsNil() || a.TakeRate.IsNegative() || a.TakeRate.GTE(one):
			bad = fmt.Sprintf("takeRate %s not in [0,1)", a.TakeRate)
		case a.RewardWeight.IsNil() || a.RewardWeightRange.Min.IsNil() || a.RewardWeightRange.Max.IsNil():
			bad = "nil weight or range"
		case a.RewardWeight.LT(a.RewardWeightRange.Min) || a.RewardWeight.GT(a.RewardWeightRange.Max):
			bad = fmt.Sprintf("weight %s outside [%s,%s]", a.RewardWeight, a.RewardWeightRange.Min, a.RewardWeightRange.Max)
		case a.RewardChangeRate.IsNil() || !a.RewardChangeRate.IsPositive():
			bad = fmt.Sprintf("changeRate %s not > 0", a.RewardChangeRate)
		case a.RewardChangeInterval < 0:
			bad = fmt.Sprintf("changeInterval %d < 0", a.RewardChangeInterval)
		case sdk.ValidateDenom(a.Denom) != nil:
			bad = "invalid denom"
		}
		if bad != "" {
			rep.Violate("C16", "C16.asset-predicate", idx, "%s: stored asset %s: %s", where, d, bad)
			return
		}
	}
}

func (m *MonC16) AfterTx(o *TxOutcome) {
	rep := m.R.Rep
	k := o.Step.K
	isGov := strings.HasPrefix(k, "gov_") || strings.HasPrefix(k, "legacy_")
	if isGov {
		g := o.Step.Gov
		legacy := strings.HasPrefix(k, "legacy_")
		assetState := "absent"
		if a, ok := o.Pre.Assets[g.Denom]; ok {
			assetState = "empty"
			if a.TotalTokens.IsPositive() {
				assetState = "staked"
				if a.TotalValidatorShares.IsZero() {
					assetState = "staked-no-shares" // every holder slashed by 100%: tokens staked, no validator shares
				}
			}
			if o.Pre.Time.Before(a.RewardStartTime) {
				assetState += "+warmup"
			}
			if a.RewardChangeInterval > 0 && !a.RewardChangeRate.Equal(math.LegacyOneDec()) {
				assetState += "+decaying"
			}
		}
		okS := "rejected"
		if o.Res.OK {
			okS = "accepted"
		} else if o.Res.Panic != "" {
			okS = "panicked"
		}
		rep.Class(fmt.Sprintf("C16.%s/%s/%s/%s", k, g.Signer, assetState, okS))
		if g.Boundary {
			rep.Class(fmt.Sprintf("C16.boundary/%s/take=%s", k, g.Take))
		}
		rep.Eval("C16.gate")
		if o.Res.OK && !legacy && g.Signer != "auth" {
			rep.Violate("C16", "C16.gate", o.Idx, "%s succeeded with signer %q (%s), which is not the authority", k, g.Signer, m.R.signer(g, o.Step.A))
			return
		}
		if !o.Res.OK {
			rep.Eval("C16.reject-no-change")
			if string(o.Pre.rawAlliance) != string(o.Post.rawAlliance) {
				rep.Violate("C16", "C16.reject-no-change", o.Idx, "%s was rejected (%s) but the module store changed", k, o.Res)
				return
			}
		} else {
			pre, had := o.Pre.Assets[g.Denom]
			post, has := o.Post.Assets[g.Denom]
			switch k {
			case "gov_update", "legacy_update":
				rep.Eval("C16.update-preserves")
				if !had || !has {
					rep.Violate("C16", "C16.update-preserves", o.Idx, "update of %q succeeded but asset existed before=%v after=%v", g.Denom, had, has)
					return
				}
				if !pre.TotalTokens.Equal(post.TotalTokens) || !pre.TotalValidatorShares.Equal(post.TotalValidatorShares) || pre.Denom != post.Denom || !pre.RewardStartTime.Equal(post.RewardStartTime) || pre.IsInitialized != post.IsInitialized {
					rep.Violate("C16", "C16.update-preserves", o.Idx, "update of %s altered protected fields: tokens %s->%s shares %s->%s start %s->%s", g.Denom, pre.TotalTokens, post.TotalTokens, pre.TotalValidatorShares, post.TotalValidatorShares, pre.RewardStartTime, post.RewardStartTime)
					return
				}
				for _, d := range o.Pre.AssetOrder {
					if d != g.Denom && !assetEqual(o.Pre.Assets[d], o.Post.Assets[d]) {
						rep.Violate("C16", "C16.update-preserves", o.Idx, "update of %s changed another asset %s", g.Denom, d)
						return
					}
				}
			case "gov_delete", "legacy_delete":
				rep.Eval("C16.delete-empty")
				if !had || has {
					rep.Violate("C16", "C16.delete-empty", o.Idx, "delete of %q succeeded but asset existed before=%v after=%v", g.Denom, had, has)
					return
				}
				if pre.TotalTokens.IsPositive() {
					rep.Violate("C16", "C16.delete-empty", o.Idx, "asset %s deleted while %s is staked in it", g.Denom, pre.TotalTokens)
					return
				}
			case "gov_create", "legacy_create":
				rep.Eval("C16.create-once")
				if had {
					rep.Violate("C16", "C16.create-once", o.Idx, "denom %s whitelisted a second time", g.Denom)
					return
				}
				if !has || !post.TotalTokens.IsZero() || !post.TotalValidatorShares.IsZero() {
					rep.Violate("C16", "C16.create-once", o.Idx, "created asset %s missing or not empty", g.Denom)
					return
				}
				want := o.Pre.Time.Add(o.Pre.Params.RewardDelayTime)
				if !post.RewardStartTime.Equal(want) {
					rep.Violate("C16", "C16.create-once", o.Idx, "created asset %s starts at %s, expected block time + reward delay = %s", g.Denom, post.RewardStartTime, want)
					return
				}
			}
		}
	} else if o.Res.OK {
		// non-governance transactions never alter governance-controlled asset fields
		rep.Eval("C16.non-gov-untouched")
		for _, d := range o.Pre.AssetOrder {
			a, b := o.Pre.Assets[d], o.Post.Assets[d]
			if !a.TakeRate.Equal(b.TakeRate) || !a.RewardWeight.Equal(b.RewardWeight) || !a.RewardChangeRate.Equal(b.RewardChangeRate) || a.RewardChangeInterval != b.RewardChangeInterval || !a.RewardWeightRange.Min.Equal(b.RewardWeightRange.Min) || !a.RewardWeightRange.Max.Equal(b.RewardWeightRange.Max) {
				rep.Violate("C16", "C16.non-gov-untouched", o.Idx, "%s altered governance-controlled fields of asset %s", k, d)
				return
			}
		}
		if len(o.Pre.Assets) != len(o.Post.Assets) || o.Pre.Params.RewardDelayTime != o.Post.Params.RewardDelayTime || o.Pre.Params.TakeRateClaimInterval != o.Post.Params.TakeRateClaimInterval {
			rep.Violate("C16", "C16.non-gov-untouched", o.Idx, "%s altered the asset set or the module parameters", k)
			return
		}
	}
	m.assets("tx "+k, o.Idx, o.Post)
}

func assetEqual(a, b types.AllianceAsset) bool {
	x, _ := a.Marshal()
	y, _ := b.Marshal()
	return string(x) == string(y)
}

func (m *MonC16) AfterBlock(o *BlockOutcome) {
	m.assets("end-block", o.Idx, o.PostEnd)
	if !m.R.Halt {
		m.assets("begin-block", o.Idx, o.PostBeg)
	}
}

// zeroStakedWeight: in 18-digit arithmetic, does no asset staked on v carry any reward weight
// (weight x tokens-on-validator / asset total rounds to zero for every started, non-empty asset)?
func zeroStakedWeight(s *Snap, v *ValSnap) bool {
	total := math.LegacyZeroDec()
	for _, d := range s.AssetOrder {
		a := s.Assets[d]
		if a.TotalTokens.IsZero() || s.Time.Before(a.RewardStartTime) {
			continue
		}
		vs := decAmount(v.Info.ValidatorShares, d)
		var valTokens math.LegacyDec
		if a.TotalValidatorShares.IsZero() {
			valTokens = math.LegacyNewDecFromInt(a.TotalTokens)
		} else {
			valTokens = vs.Quo(a.TotalValidatorShares).Mul(math.LegacyNewDecFromInt(a.TotalTokens))
		}
		if valTokens.IsZero() {
			continue
		}
		total = total.Add(a.RewardWeight.Mul(valTokens).QuoInt(a.TotalTokens))
	}
	return total.IsZero()
}

func intOf(m map[string]math.Int, k string) math.Int {
	if v, ok := m[k]; ok && !v.IsNil() {
		return v
	}
	return math.ZeroInt()
}

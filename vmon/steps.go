package main

// steps.go — the step alphabet, explicit history files, and execution of one step against the world
// with eager pre/post snapshots (DESIGN.md 3.2 / 3.3).

import (
	"context"
	"encoding/json"
	"fmt"
	"os"
	"time"

	"cosmossdk.io/math"
	sdk "github.com/cosmos/cosmos-sdk/types"
	govv1beta1 "github.com/cosmos/cosmos-sdk/x/gov/types/v1beta1"
	slashingtypes "github.com/cosmos/cosmos-sdk/x/slashing/types"
	stakingtypes "github.com/cosmos/cosmos-sdk/x/staking/types"

	"github.com/terra-money/alliance/x/alliance"
	"github.com/terra-money/alliance/x/alliance/keeper"
	"github.com/terra-money/alliance/x/alliance/types"
)

type GovSpec struct {
	Signer   string `json:"signer"` // "auth", "actor", "mod", "pool", "distr", "empty", "garbage"
	Denom    string `json:"denom,omitempty"`
	Weight   string `json:"w,omitempty"` // "nil" = nil Dec
	WMin     string `json:"wmin,omitempty"`
	WMax     string `json:"wmax,omitempty"`
	Take     string `json:"take,omitempty"`
	Rate     string `json:"rate,omitempty"`
	Interval int64  `json:"ivl,omitempty"`
	// params
	DelayNs    int64 `json:"delay,omitempty"`
	TakeIvlNs  int64 `json:"takeivl,omitempty"`
	LastClaim  int64 `json:"lastclaim,omitempty"` // unix nanos; 0 = keep current
	KeepClock  bool  `json:"keepclock,omitempty"`
	NoValidate bool  `json:"novalidate,omitempty"` // legacy content: skip ValidateBasic (v1 MsgExecLegacyContent path)
	Boundary   bool  `json:"boundary,omitempty"`   // scripted boundary value of the asset predicate (classification only)
}

type Step struct {
	K     string     `json:"k"`
	A     int        `json:"a,omitempty"`
	V     int        `json:"v,omitempty"`
	W     int        `json:"w,omitempty"`
	Den   string     `json:"den,omitempty"`
	Amt   string     `json:"amt,omitempty"`
	Block *BlockSpec `json:"block,omitempty"`
	Gov   *GovSpec   `json:"gov,omitempty"`
}

func (s Step) String() string {
	b, _ := json.Marshal(s)
	return string(b)
}

type History struct {
	Property string `json:"property"`
	Profile  string `json:"profile"`
	Seed     uint64 `json:"seed"`
	Index    int    `json:"index"`
	Config   Config `json:"config"`
	Steps    []Step `json:"steps"`
	Note     string `json:"note,omitempty"`
	ProbeEvery int `json:"probe_every,omitempty"`
}

func (h *History) Save(path string) error {
	b, err := json.Marshal(h)
	if err != nil {
		return err
	}
	return os.WriteFile(path, b, 0o644)
}

func LoadHistory(path string) (*History, error) {
	b, err := os.ReadFile(path)
	if err != nil {
		return nil, err
	}
	var h History
	if err := json.Unmarshal(b, &h); err != nil {
		return nil, err
	}
	return &h, nil
}

// ---- outcomes ----------------------------------------------------------------------------------

type TxOutcome struct {
	Idx    int
	Step   Step
	Msg    sdk.Msg
	Pre    *Snap
	Post   *Snap
	Res    TxResult
	Ev     *ParsedEvents
	Actor  string
	Val    string
	Dst    string
	Amount math.Int
	PendingMod map[string]bool // validators for which the module had >= 1 base unit of staking rewards pending before the step
	PendingCoins map[string]sdk.Coins
}

type SlashRecord struct {
	Val      string
	Fraction math.LegacyDec
	Pre      *Snap
	Post     *Snap // state after the callback, obtained on a branch taken at callback entry
	Err      string
	Panic    string
	Stack    string
	Ev       *ParsedEvents
	Real     bool // true: callback invoked by x/staking on the main line; false: probe
	toppedUp bool // probe executed on a branch whose rewards pool was made solvent first
	Idx      int
}

type BlockOutcome struct {
	Idx      int
	Step     Step
	Pre      *Snap // before EndBlock
	PostEnd  *Snap // after EndBlock (same header)
	EndRes   BlockResult
	EndEv    *ParsedEvents
	PostBeg  *Snap // after BeginBlock of the next block
	BegRes   BlockResult
	BegEv    *ParsedEvents
	Slashes  []*SlashRecord
	Matured  []ShadowUnb   // shadow unbondings that had to be paid in this end-block
	MaturedR []ShadowRedel // shadow redelegations that had to disappear in this end-block
	PendingMod map[string]bool
	PendingCoins map[string]sdk.Coins
	shUnbAfterEnd []string // reference unbonding list after maturing, before this block's slashes
	tainted  bool          // a slash callback failed in this block: reference lists were resynchronised
}

// ---- message construction ------------------------------------------------------------------------

func parseDec(s string) math.LegacyDec {
	if s == "nil" || s == "" {
		return math.LegacyDec{}
	}
	d, err := math.LegacyNewDecFromStr(s)
	if err != nil {
		return math.LegacyDec{}
	}
	return d
}

func (r *Runner) signer(g *GovSpec, actor int) string {
	switch g.Signer {
	case "auth":
		return r.W.GovAddr.String()
	case "actor":
		if actor < len(r.W.Actors) {
			return r.W.Actors[actor].String()
		}
		return r.W.Actors[0].String()
	case "mod":
		return r.W.ModAddr.String()
	case "pool":
		return r.W.PoolAddr.String()
	case "distr":
		return r.W.DistrAddr.String()
	case "empty":
		return ""
	default:
		return "not-an-address"
	}
}

func (r *Runner) buildMsg(s Step) sdk.Msg {
	w := r.W
	actor := func() string {
		if s.A >= 0 && s.A < len(w.Actors) {
			return w.Actors[s.A].String()
		}
		return ""
	}
	val := func(i int) string {
		if i >= 0 && i < len(w.Vals) {
			return w.Vals[i].Oper.String()
		}
		return ""
	}
	amt := func() math.Int {
		a, ok := math.NewIntFromString(s.Amt)
		if !ok {
			return math.ZeroInt()
		}
		return a
	}
	switch s.K {
	case "delegate":
		return &types.MsgDelegate{DelegatorAddress: actor(), ValidatorAddress: val(s.V), Amount: sdk.Coin{Denom: s.Den, Amount: amt()}}
	case "undelegate":
		return &types.MsgUndelegate{DelegatorAddress: actor(), ValidatorAddress: val(s.V), Amount: sdk.Coin{Denom: s.Den, Amount: amt()}}
	case "redelegate":
		return &types.MsgRedelegate{DelegatorAddress: actor(), ValidatorSrcAddress: val(s.V), ValidatorDstAddress: val(s.W), Amount: sdk.Coin{Denom: s.Den, Amount: amt()}}
	case "claim":
		return &types.MsgClaimDelegationRewards{DelegatorAddress: actor(), ValidatorAddress: val(s.V), Denom: s.Den}
	case "ndelegate":
		return &stakingtypes.MsgDelegate{DelegatorAddress: actor(), ValidatorAddress: val(s.V), Amount: sdk.NewCoin(BondDenom, amt())}
	case "nundelegate":
		return &stakingtypes.MsgUndelegate{DelegatorAddress: actor(), ValidatorAddress: val(s.V), Amount: sdk.NewCoin(BondDenom, amt())}
	case "oper_exit":
		if s.V < 0 || s.V >= len(w.Vals) {
			return nil
		}
		return &stakingtypes.MsgUndelegate{DelegatorAddress: sdk.AccAddress(w.Vals[s.V].Oper).String(), ValidatorAddress: val(s.V), Amount: sdk.NewCoin(BondDenom, amt())}
	case "nredelegate":
		return &stakingtypes.MsgBeginRedelegate{DelegatorAddress: actor(), ValidatorSrcAddress: val(s.V), ValidatorDstAddress: val(s.W), Amount: sdk.NewCoin(BondDenom, amt())}
	case "set_unbonding":
		// staking governance changes the unbonding period (pending entries keep their own completion time)
		sp, err := w.App.StakingKeeper.GetParams(w.Ctx)
		if err != nil {
			return nil
		}
		sp.UnbondingTime = time.Duration(amt().Int64())
		return &stakingtypes.MsgUpdateParams{Authority: w.GovAddr.String(), Params: sp}
	case "unjail":
		return &slashingtypes.MsgUnjail{ValidatorAddr: val(s.V)}
	case "gov_create":
		g := s.Gov
		return &types.MsgCreateAlliance{Authority: r.signer(g, s.A), Denom: g.Denom, RewardWeight: parseDec(g.Weight), TakeRate: parseDec(g.Take), RewardChangeRate: parseDec(g.Rate), RewardChangeInterval: time.Duration(g.Interval), RewardWeightRange: types.RewardWeightRange{Min: parseDec(g.WMin), Max: parseDec(g.WMax)}}
	case "gov_update":
		g := s.Gov
		return &types.MsgUpdateAlliance{Authority: r.signer(g, s.A), Denom: g.Denom, RewardWeight: parseDec(g.Weight), TakeRate: parseDec(g.Take), RewardChangeRate: parseDec(g.Rate), RewardChangeInterval: time.Duration(g.Interval), RewardWeightRange: types.RewardWeightRange{Min: parseDec(g.WMin), Max: parseDec(g.WMax)}}
	case "gov_delete":
		g := s.Gov
		return &types.MsgDeleteAlliance{Authority: r.signer(g, s.A), Denom: g.Denom}
	case "gov_params":
		g := s.Gov
		p := types.Params{RewardDelayTime: time.Duration(g.DelayNs), TakeRateClaimInterval: time.Duration(g.TakeIvlNs)}
		if g.KeepClock {
			p.LastTakeRateClaimTime = r.Cur.Params.LastTakeRateClaimTime
		} else if g.LastClaim != 0 {
			p.LastTakeRateClaimTime = time.Unix(0, g.LastClaim).UTC()
		}
		return &types.MsgUpdateParams{Authority: r.signer(g, s.A), Params: p}
	}
	return nil
}

func (r *Runner) legacyContent(s Step) govv1beta1.Content {
	g := s.Gov
	rng := types.RewardWeightRange{Min: parseDec(g.WMin), Max: parseDec(g.WMax)}
	switch s.K {
	case "legacy_create":
		return types.NewMsgCreateAllianceProposal("t", "d", g.Denom, parseDec(g.Weight), rng, parseDec(g.Take), parseDec(g.Rate), time.Duration(g.Interval))
	case "legacy_update":
		return types.NewMsgUpdateAllianceProposal("t", "d", g.Denom, parseDec(g.Weight), rng, parseDec(g.Take), parseDec(g.Rate), time.Duration(g.Interval))
	case "legacy_delete":
		return types.NewMsgDeleteAllianceProposal("t", "d", g.Denom)
	}
	return nil
}

// ---- runner ------------------------------------------------------------------------------------

type Monitor interface {
	Name() string
	AfterTx(o *TxOutcome)
	AfterSlash(s *SlashRecord)
	AfterBlock(o *BlockOutcome)
	Probe(idx int) // after every step, on the current state (r.Cur), non-destructive
	Finish()
}

type BaseMon struct{ R *Runner }

func (BaseMon) AfterTx(*TxOutcome)       {}
func (BaseMon) AfterSlash(*SlashRecord)  {}
func (BaseMon) AfterBlock(*BlockOutcome) {}
func (BaseMon) Probe(int)                {}
func (BaseMon) Finish()                  {}

type Runner struct {
	W      *World
	Cfg    Config
	Mons   []Monitor
	Rep    *Report
	Sh     *Shadow
	Cur    *Snap
	Idx    int
	Hist   *History
	inObs  bool
	slashQ []*SlashRecord
	Halt   bool // set when a violation was recorded: the history stops
	ProbeEvery int
	LastRes    string
	haltAfter  bool
	Rw *RewardShadow
	NeedPending bool // compute the module's pending staking rewards per validator before every step
	Ghost      bool // execute every step first on a discarded branch (C19 replays)
	GhostNext  []Step // the steps that follow the current one in the history being replayed (ghost look-ahead)
	PoolShort  bool // set by the C12 machinery when the rewards pool cannot pay all claims (recorded finding)
}

var activeRunner *Runner

func init() {
	keeper.VerifSlashObserver = slashObserver
}

func NewRunner(w *World, cfg Config, rep *Report) *Runner {
	r := &Runner{W: w, Cfg: cfg, Rep: rep, ProbeEvery: 1}
	w.Reset(cfg)
	r.Sh = NewShadow(r)
	r.Cur = w.Snapshot(w.Ctx)
	if !raceMode {
		activeRunner = r
	}
	return r
}

// SlashOn runs the module's slash callback on a branch of ctx and records pre/post/return value.
// TopUpPool makes the rewards pool solvent on a branch (used to look past the recorded pool-short
// findings: what else would fail in this state if the pool could pay?).
// valExists: does x/staking still know validator i of the world (it may have been removed)?
func (r *Runner) valExists(i int) bool {
	if i < 0 || i >= len(r.W.Vals) || r.Cur == nil {
		return false
	}
	v := r.Cur.Vals[r.W.Vals[i].Oper.String()]
	return v != nil && v.Exists
}

func (r *Runner) TopUpPool(ctx sdk.Context) {
	for _, c := range r.Cur.Supply {
		coins := sdk.NewCoins(sdk.NewCoin(c.Denom, c.Amount))
		if r.W.App.BankKeeper.MintCoins(ctx, "mint", coins) == nil {
			_ = r.W.App.BankKeeper.SendCoinsFromModuleToModule(ctx, "mint", types.RewardsPoolName, coins)
		}
	}
}

func (r *Runner) SlashOn(ctx sdk.Context, val sdk.ValAddress, f math.LegacyDec, real bool) *SlashRecord {
	return r.slashOn(ctx, val, f, real, false)
}

func (r *Runner) slashOn(ctx sdk.Context, val sdk.ValAddress, f math.LegacyDec, real bool, topUp bool) *SlashRecord {
	rec := &SlashRecord{Val: val.String(), Fraction: f, Real: real, Idx: r.Idx}
	if topUp {
		ctx, _ = ctx.CacheContext()
		r.TopUpPool(ctx)
	}
	rec.Pre = r.W.Snapshot(ctx)
	bctx, _ := ctx.CacheContext()
	em := sdk.NewEventManager()
	bctx = bctx.WithEventManager(em)
	prev := r.inObs
	r.inObs = true
	func() {
		defer func() {
			if p := recover(); p != nil {
				rec.Panic = fmt.Sprint(p)
				rec.Stack = shortStack()
			}
		}()
		if err := r.W.App.AllianceKeeper.StakingHooks().BeforeValidatorSlashed(bctx, val, f); err != nil {
			rec.Err = err.Error()
		}
	}()
	r.inObs = prev
	rec.Post = r.W.Snapshot(bctx)
	rec.Ev = ParseEvents(em.ABCIEvents())
	return rec
}

// slashObserver is invoked (build tag verif) at the entry of the module's BeforeValidatorSlashed
// callback, before any state is touched. It snapshots the pre-state and learns the callback's
// effects and return value by running the very same callback on a branch taken at that instant.
func slashObserver(ctx context.Context, _ keeper.Keeper, val sdk.ValAddress, f math.LegacyDec) {
	r := activeRunner
	if r == nil || r.inObs || os.Getenv("VMON_NOOBS") != "" {
		return
	}
	rec := r.SlashOn(sdk.UnwrapSDKContext(ctx), val, f, true)
	r.slashQ = append(r.slashQ, rec)
}

// PendingModRewards reads, on a discarded branch, what x/distribution currently owes the module
// account per validator (truncated coins; only validators with >= 1 base unit of some denom).
func (r *Runner) PendingModRewards() (map[string]bool, map[string]sdk.Coins) {
	w := r.W
	out := map[string]bool{}
	coins := map[string]sdk.Coins{}
	cctx, _ := w.Ctx.CacheContext()
	for _, vo := range r.Cur.ValOrder {
		v := r.Cur.Vals[vo]
		if !v.Exists || !v.HasModDel {
			continue
		}
		func() {
			defer func() { _ = recover() }()
			va, _ := sdk.ValAddressFromBech32(vo)
			val, err := w.App.StakingKeeper.Validator(cctx, va)
			if err != nil {
				return
			}
			del, err := w.App.StakingKeeper.Delegation(cctx, w.ModAddr, va)
			if err != nil {
				return
			}
			end, err := w.App.DistrKeeper.IncrementValidatorPeriod(cctx, val)
			if err != nil {
				return
			}
			rw, err := w.App.DistrKeeper.CalculateDelegationRewards(cctx, val, del, end)
			if err != nil {
				return
			}
			c, _ := rw.TruncateDecimal()
			if !c.IsZero() {
				out[vo] = true
				coins[vo] = c
			}
		}()
	}
	return out, coins
}

func (r *Runner) ExecTx(s Step) *TxOutcome {
	o := &TxOutcome{Idx: r.Idx, Step: s, Pre: r.Cur, Amount: math.ZeroInt()}
	if r.NeedPending {
		o.PendingMod, o.PendingCoins = r.PendingModRewards()
	}
	w := r.W
	if s.A >= 0 && s.A < len(w.Actors) {
		o.Actor = w.Actors[s.A].String()
	}
	if s.V >= 0 && s.V < len(w.Vals) {
		o.Val = w.Vals[s.V].Oper.String()
	}
	if s.W >= 0 && s.W < len(w.Vals) {
		o.Dst = w.Vals[s.W].Oper.String()
	}
	if a, ok := math.NewIntFromString(s.Amt); ok {
		o.Amount = a
	}
	switch s.K {
	case "create_val":
		// a new validator joins (real MsgCreateValidator by a fresh operator account funded by the world)
		st := o.Amount.Int64()
		if st <= 0 {
			st = 1_000_000
		}
		if len(w.Vals) >= 9 {
			o.Res = TxResult{Err: "world: validator limit reached"}
		} else {
			o.Res = w.CreateValidator(len(w.Vals)-1, st)
		}
	case "donate":
		c, err := sdk.ParseCoinsNormalized(s.Amt)
		if err != nil {
			o.Res = TxResult{Err: err.Error()}
		} else {
			o.Res = w.Donate(w.Actors[s.A], c)
		}
	case "legacy_create", "legacy_update", "legacy_delete":
		content := r.legacyContent(s)
		o.Res = w.RunFn(w.Ctx, true, func(ctx sdk.Context) error {
			if !s.Gov.NoValidate {
				if err := content.ValidateBasic(); err != nil {
					return err
				}
			}
			rt := w.App.GovKeeper.LegacyRouter()
			if rt.HasRoute(content.ProposalRoute()) {
				return rt.GetRoute(content.ProposalRoute())(ctx, content)
			}
			// this application does not register the module's legacy route in its gov router; chains that
			// embed the module do, with exactly this handler
			return alliance.NewAllianceProposalHandler(w.App.AllianceKeeper)(ctx, content)
		})
	default:
		msg := r.buildMsg(s)
		if msg == nil {
			o.Res = TxResult{Err: "unknown step kind " + s.K}
		} else {
			o.Msg = msg
			o.Res = w.RunMsg(msg)
		}
	}
	o.Ev = ParseEvents(o.Res.Events)
	o.Post = w.Snapshot(w.Ctx)
	r.Cur = o.Post
	r.LastRes = o.Res.String()
	r.Rep.Op(s.K, o.Res)
	return o
}

func (r *Runner) ExecBlock(s Step) *BlockOutcome {
	w := r.W
	o := &BlockOutcome{Idx: r.Idx, Step: s, Pre: r.Cur}
	if r.NeedPending {
		o.PendingMod, o.PendingCoins = r.PendingModRewards()
	}
	o.EndRes = w.EndBlock()
	o.EndEv = ParseEvents(o.EndRes.Events)
	o.PostEnd = w.Snapshot(w.Ctx)
	r.slashQ = nil
	if !o.EndRes.Failed() {
		for _, mon := range r.Mons {
			if bm, ok := mon.(BoundaryMon); ok && !r.Halt {
				bm.AtBoundary(o)
			}
		}
	}
	if o.EndRes.Failed() {
		// the chain is halted here: no next block
		o.PostBeg = o.PostEnd
		o.BegEv = ParseEvents(nil)
		r.Cur = o.PostEnd
		r.LastRes = fmt.Sprintf("end[%s%s] CHAIN HALTED", o.EndRes.Err, o.EndRes.Panic)
		r.haltAfter = true
		return o
	}
	spec := *s.Block
	// downtime windows requested by earlier steps
	o.BegRes = w.BeginBlock(spec)
	o.BegEv = ParseEvents(o.BegRes.Events)
	o.PostBeg = w.Snapshot(w.Ctx)
	o.Slashes = r.slashQ
	r.slashQ = nil
	r.Cur = o.PostBeg
	r.Rep.Count("op.block", 1)
	r.LastRes = fmt.Sprintf("end[%s%s] begin[%s%s] slashes %d", o.EndRes.Err, o.EndRes.Panic, o.BegRes.Err, o.BegRes.Panic, len(o.Slashes))
	return o
}

// Step executes one step, updates the shadow and lets the monitors judge it.
func (r *Runner) Step(s Step) {
	if s.Amt == "bal" && s.A >= 0 && s.A < len(r.W.Actors) && s.V >= 0 && s.V < len(r.W.Vals) {
		// scripted steps may ask for the current reported balance; the explicit amount is what is recorded
		s.Amt = r.Cur.Reported(PosKey{r.W.Actors[s.A].String(), r.W.Vals[s.V].Oper.String(), s.Den}).String()
	}
	if s.K == "oper_exit" && s.Amt == "" && s.V >= 0 && s.V < len(r.W.Vals) {
		// the validator operator removes its whole self-delegation; the explicit amount is what is recorded
		op := r.W.Vals[s.V].Oper
		s.Amt = "0"
		if d, err := r.W.App.StakingKeeper.GetDelegation(r.W.Ctx, sdk.AccAddress(op), op); err == nil {
			if v, err := r.W.App.StakingKeeper.GetValidator(r.W.Ctx, op); err == nil {
				s.Amt = v.TokensFromShares(d.GetShares()).TruncateInt().String()
			}
		}
	}
	if r.Hist != nil {
		r.Hist.Steps = append(r.Hist.Steps, s)
	}
	if r.Ghost {
		r.ghost(s)
	}
	if s.K == "block" {
		o := r.ExecBlock(s)
		r.Sh.ApplyBlock(o)
		for _, m := range r.Mons {
			for _, sl := range o.Slashes {
				m.AfterSlash(sl)
			}
			m.AfterBlock(o)
		}
	} else {
		o := r.ExecTx(s)
		r.Sh.ApplyTx(o)
		for _, m := range r.Mons {
			m.AfterTx(o)
		}
	}
	if r.haltAfter {
		r.Halt = true
		r.Rep.Count("halted.end-of-block-failed", 1)
	}
	if r.Sh.TaintedSlash && !r.Halt {
		// a real slash callback aborted half-way (x/staking only logs that; recorded C08 finding): its partial
		// writes - including a half-debited bank transfer - stay in the state, which no longer satisfies even
		// the bank's own invariants. Nothing meaningful can be judged on this history afterwards.
		r.Halt = true
		r.Rep.Count("halted.failed-slash-callback", 1)
	}
	if !r.Halt && r.ProbeEvery > 0 && r.Idx%r.ProbeEvery == 0 {
		for _, m := range r.Mons {
			m.Probe(r.Idx)
		}
	}
	r.Idx++
}

// ghost executes the coming step on a branch that is thrown away, as a node does all the time (CheckTx,
// simulation, queries, proposals whose last message fails). Nothing of it may influence the real execution:
// state that survives outside the store (keeper-level caches, package variables) shows up as a divergence
// between a run with ghosts and a run without.
func (r *Runner) ghost(s Step) {
	w := r.W
	defer func() { _ = recover() }()
	gctx, _ := w.Ctx.CacheContext()
	gctx = gctx.WithEventManager(sdk.NewEventManager())
	switch s.K {
	case "block":
		// this block's end and the end of a following block on the same discarded branch
		w.EndBlockOn(gctx)
		dt := time.Duration(s.Block.DtNs)
		if dt <= 0 {
			dt = time.Second
		}
		g2 := gctx.WithBlockTime(gctx.BlockTime().Add(dt)).WithBlockHeight(gctx.BlockHeight() + 1)
		w.EndBlockOn(g2)
		w.EndBlockOn(g2.WithBlockTime(g2.BlockTime().Add(dt)).WithBlockHeight(g2.BlockHeight() + 1))
	case "donate", "legacy_create", "legacy_update", "legacy_delete":
	default:
		if msg := r.buildMsg(s); msg != nil {
			w.RunMsgOn(gctx, msg, true)
			// and what the end-blocker would do right after it
			w.EndBlockOn(gctx)
			w.EndBlockOn(gctx.WithBlockTime(gctx.BlockTime().Add(time.Hour)).WithBlockHeight(gctx.BlockHeight() + 1))
		}
	}
	// look-ahead: the transactions that FOLLOW this one in the same block, simulated before it on another
	// discarded branch (a mempool is simulated against the current state in any order)
	if s.K != "block" && len(r.GhostNext) > 0 {
		actx, _ := w.Ctx.CacheContext()
		actx = actx.WithEventManager(sdk.NewEventManager())
		n := 0
		for _, ns := range r.GhostNext {
			if ns.K == "block" || n >= 3 {
				break
			}
			switch ns.K {
			case "donate", "legacy_create", "legacy_update", "legacy_delete", "create_val", "oper_exit":
				continue
			}
			if msg := r.buildMsg(ns); msg != nil {
				w.RunMsgOn(actx, msg, true)
				n++
			}
		}
		r.Rep.Count("C19.ghost-lookahead-executions", n)
	}
	r.Rep.Count("C19.ghost-executions", 1)
}

func (r *Runner) Finish() {
	for _, m := range r.Mons {
		m.Finish()
	}
}

package main

// race.go — C19, thorough tier: the same histories executed concurrently in separate application
// instances inside one process built with the Go race detector. The instances share no stores, so any
// report is a genuine shared-global race in the module (or the SDK), not a harness artefact. Pairs of
// instances run identical histories and their digests are compared (cross-instance determinism).

import (
	"encoding/json"
	"fmt"
	"os"
	"strconv"
	"sync"
)

var raceMode bool

type raceOut struct {
	Instances  int      `json:"instances"`
	Histories  int      `json:"histories_per_instance"`
	Steps      int      `json:"steps"`
	Mismatches []string `json:"digest_mismatches"`
	Panics     []string `json:"panics"`
}

// race <instances> <histories per instance> <seed> <out.json>
func cmdRace(args []string) int {
	n, _ := strconv.Atoi(args[0])
	k, _ := strconv.Atoi(args[1])
	seed, _ := strconv.ParseUint(args[2], 10, 64)
	raceMode = true
	def := checkDefs()["C19"]
	worlds := make([]*World, n)
	for i := range worlds {
		worlds[i] = NewWorld() // construction touches SDK-global registries: sequential
	}
	digests := make([][]string, n)
	steps := make([]int, n)
	panics := make([]string, n)
	profs := []string{"queue", "core", "gov"}
	var wg sync.WaitGroup
	for i := 0; i < n; i++ {
		wg.Add(1)
		go func(i int) {
			defer wg.Done()
			defer func() {
				if p := recover(); p != nil {
					panics[i] = fmt.Sprint(p)
				}
			}()
			for h := 0; h < k; h++ {
				// instances 2j and 2j+1 run the same histories
				idx := (i/2)*k + h
				prof := profs[idx%len(profs)]
				rep := NewReport("C19", prof, idx)
				g := NewGen(seed, idx, profiles()[prof])
				cfg := g.Config()
				r := NewRunner(worlds[i], cfg, rep)
				rep.runner = r
				g.R = r
				r.Hist = &History{Property: "C19", Profile: prof, Seed: seed, Index: idx, Config: cfg}
				mon := NewMonC19(r)
				r.Mons = []Monitor{mon}
				r.ProbeEvery = 0
				ops := 0
				for g.blocks < profiles()[prof].Blocks && !r.Halt {
					r.Step(g.Next(&ops))
				}
				r.Finish()
				steps[i] += r.Idx
				digests[i] = append(digests[i], mon.Digests...)
			}
		}(i)
	}
	wg.Wait()
	out := raceOut{Instances: n, Histories: k}
	for i := 0; i+1 < n; i += 2 {
		a, b := digests[i], digests[i+1]
		if len(a) != len(b) {
			out.Mismatches = append(out.Mismatches, fmt.Sprintf("instances %d/%d: %d vs %d records", i, i+1, len(a), len(b)))
			continue
		}
		for j := range a {
			if a[j] != b[j] {
				out.Mismatches = append(out.Mismatches, fmt.Sprintf("instances %d/%d record %d: %q vs %q", i, i+1, j, a[j], b[j]))
				break
			}
		}
	}
	for i, p := range panics {
		if p != "" {
			out.Panics = append(out.Panics, fmt.Sprintf("instance %d: %s", i, p))
		}
		out.Steps += steps[i]
	}
	_ = def
	b, _ := json.MarshalIndent(out, "", " ")
	_ = os.WriteFile(args[3], b, 0o644)
	fmt.Printf("race run: %d instances x %d histories, %d steps, %d digest mismatches, %d panics\n", n, k, out.Steps, len(out.Mismatches), len(out.Panics))
	return 0
}

package main

// mon_query.go — C20: every query and contract binding compared with an independent enumeration of
// the primary records (raw store decoder + reference entries).

import (
	"encoding/json"
	"fmt"
	"math/big"
	"sort"
	"strings"
	"time"

	"cosmossdk.io/math"
	sdk "github.com/cosmos/cosmos-sdk/types"
	"github.com/cosmos/cosmos-sdk/types/query"

	"github.com/terra-money/alliance/x/alliance/bindings"
	bindingtypes "github.com/terra-money/alliance/x/alliance/bindings/types"
	"github.com/terra-money/alliance/x/alliance/keeper"
	"github.com/terra-money/alliance/x/alliance/types"
)

type MonC20 struct {
	BaseMon
	qs types.QueryServer
	cq func(ctx sdk.Context, request json.RawMessage) ([]byte, error)
}

func NewMonC20(r *Runner) *MonC20 {
	k := r.W.App.AllianceKeeper
	return &MonC20{BaseMon: BaseMon{r}, qs: keeper.NewQueryServerImpl(k), cq: bindings.CustomQuerier(bindings.NewAllianceQueryPlugin(&k))}
}
func (m *MonC20) Name() string { return "C20" }

func unbKey(val string, denom string, amt math.Int, t time.Time) string {
	return fmt.Sprintf("%s|%s|%s|%d", val, denom, amt, t.UnixNano())
}

func (m *MonC20) fail(idx int, assert string, format string, a ...any) {
	m.R.Rep.Violate("C20", assert, idx, format, a...)
}

// pages runs a paginated query in several pagination modes and returns, per mode, the stitched items.
type pageFn func(p *query.PageRequest) (items []string, next []byte, total uint64, err error)

func (m *MonC20) paginated(idx int, what string, want []string, fn pageFn) bool {
	return m.paginatedOpt(idx, what, want, false, fn)
}

func (m *MonC20) paginatedOpt(idx int, what string, want []string, onlyUnpaginated bool, fn pageFn) bool {
	rep := m.R.Rep
	modes := []string{"none", "key1", "key2", "offset1", "offset2", "count"}
	if onlyUnpaginated {
		modes = []string{"none"}
	}
	for _, mode := range modes {
		var got []string
		var err error
		switch mode {
		case "none":
			got, _, _, err = fn(nil)
		case "key1", "key2":
			lim := uint64(1)
			if mode == "key2" {
				lim = 2
			}
			var key []byte
			for i := 0; i < 200; i++ {
				items, next, _, e := fn(&query.PageRequest{Key: key, Limit: lim})
				if e != nil {
					err = e
					break
				}
				if uint64(len(items)) > lim {
					rep.Eval("C20.pagination")
					m.fail(idx, "C20.pagination", "%s: a page with limit %d returned %d entries", what, lim, len(items))
					return false
				}
				got = append(got, items...)
				if len(next) == 0 {
					break
				}
				key = next
			}
		case "offset1", "offset2":
			lim := uint64(1)
			if mode == "offset2" {
				lim = 2
			}
			for off := uint64(0); off < 400; off += lim {
				items, _, _, e := fn(&query.PageRequest{Offset: off, Limit: lim})
				if e != nil {
					err = e
					break
				}
				if uint64(len(items)) > lim {
					rep.Eval("C20.pagination")
					m.fail(idx, "C20.pagination", "%s: a page with offset %d limit %d returned %d entries", what, off, lim, len(items))
					return false
				}
				got = append(got, items...)
				if uint64(len(items)) < lim {
					break
				}
			}
		case "count":
			var total uint64
			got, _, total, err = fn(&query.PageRequest{Limit: 1000, CountTotal: true})
			if err == nil && total != uint64(len(want)) {
				rep.Eval("C20.pagination")
				m.fail(idx, "C20.pagination", "%s: count_total reports %d, %d records match", what, total, len(want))
				return false
			}
		}
		rep.Eval("C20." + strings.Split(what, "(")[0])
		if err != nil {
			m.fail(idx, "C20."+strings.Split(what, "(")[0], "%s [%s] failed: %v", what, mode, err)
			return false
		}
		if !equalStringMultiset(got, want) {
			m.fail(idx, "C20."+strings.Split(what, "(")[0], "%s [pagination %s]: only in the answer %v, only in the records %v", what, mode, diffMultiset(got, want), diffMultiset(want, got))
			return false
		}
		if len(want) < 2 && mode != "none" && mode != "count" {
			break // pagination adds nothing below two records
		}
	}
	if len(want) >= 2 {
		rep.Class("C20.paginated/" + strings.Split(what, "(")[0])
	}
	return true
}

func delKey(d types.Delegation, bal math.Int) string {
	return fmt.Sprintf("%s|%s|%s|%s|%s", d.DelegatorAddress, d.ValidatorAddress, d.Denom, d.Shares, bal)
}

func redelKey(del, src, dst, denom string, amt math.Int, t time.Time) string {
	return fmt.Sprintf("%s|%s|%s|%s|%s|%d", del, src, dst, denom, amt, t.UnixNano())
}

// expectedBalance: the API value floor(value + 0.01) recomputed here with the same 18-digit operations
// applied to the independently decoded records (the exact-rational value is checked to be within the
// arithmetic's resolution of it).
func expectedBalance(s *Snap, pk PosKey) math.Int {
	d := s.Dels[pk]
	v := s.Vals[pk.Val]
	a := s.Assets[pk.Denom]
	var valTokens math.LegacyDec
	vs := decAmount(v.Info.ValidatorShares, pk.Denom)
	if a.TotalValidatorShares.IsZero() {
		valTokens = math.LegacyNewDecFromInt(a.TotalTokens)
	} else {
		valTokens = vs.Quo(a.TotalValidatorShares).Mul(math.LegacyNewDecFromInt(a.TotalTokens))
	}
	S := decAmount(v.Info.TotalDelegatorShares, pk.Denom)
	var tok math.LegacyDec
	if S.IsZero() {
		tok = valTokens
	} else {
		tok = d.Shares.Quo(S).Mul(valTokens)
	}
	return tok.Add(math.LegacyNewDecWithPrec(1, 2)).TruncateInt()
}

func (m *MonC20) Probe(idx int) {
	rep := m.R.Rep
	w := m.R.W
	s := m.R.Cur
	// queries run on discarded branches (like a node's query context): some of them create empty
	// validator records on the fly
	ctx, _ := w.Ctx.CacheContext()
	// ---------------- delegations
	var allDel []string
	byDel := map[string][]string{}
	byDelVal := map[[2]string][]string{}
	for _, pk := range s.DelOrder {
		if _, ok := s.Assets[pk.Denom]; !ok {
			continue
		}
		if v := s.Vals[pk.Val]; v == nil || !v.HasInfo {
			// the delegation record outlived its validator's share record: nothing can be reported for it
			rep.Eval("C20.AllianceDelegation")
			_, err := m.qs.AllianceDelegation(ctx, &types.QueryAllianceDelegationRequest{DelegatorAddr: pk.Del, ValidatorAddr: pk.Val, Denom: pk.Denom})
			m.fail(idx, "C20.AllianceDelegation", "delegation record (%s,%s,%s) exists but its validator's share record is gone; AllianceDelegation returns error %v", w.Name(pk.Del), w.Name(pk.Val), pk.Denom, err)
			return
		}
		bal := expectedBalance(s, pk)
		// the 18-digit balance agrees with the exact-rational one up to the arithmetic's resolution
		exact := s.Reported(pk)
		rep.Eval("C20.balance-vs-exact")
		if d := new(big.Int).Sub(bal.BigInt(), exact); d.CmpAbs(big.NewInt(1)) > 0 {
			tol, _ := new(big.Float).SetRat(budget(new(big.Rat).Mul(ratInt(s.Assets[pk.Denom].TotalTokens), sharePrice(s, pk.Val, pk.Denom)), 1, 8)).Int(nil)
			if d.CmpAbs(tol) > 0 {
				m.fail(idx, "C20.balance-vs-exact", "reported balance of (%s,%s,%s) computed with 18 digits is %s, exact value %s", w.Name(pk.Del), w.Name(pk.Val), pk.Denom, bal, ratStr(s.Value(pk)))
				return
			}
		}
		k := delKey(s.Dels[pk], bal)
		allDel = append(allDel, k)
		byDel[pk.Del] = append(byDel[pk.Del], k)
		byDelVal[[2]string{pk.Del, pk.Val}] = append(byDelVal[[2]string{pk.Del, pk.Val}], k)
		// single-delegation query
		rep.Eval("C20.AllianceDelegation")
		r1, err := m.qs.AllianceDelegation(ctx, &types.QueryAllianceDelegationRequest{DelegatorAddr: pk.Del, ValidatorAddr: pk.Val, Denom: pk.Denom})
		if err != nil {
			m.fail(idx, "C20.AllianceDelegation", "AllianceDelegation(%s,%s,%s) failed: %v", w.Name(pk.Del), w.Name(pk.Val), pk.Denom, err)
			return
		}
		if got := delKey(r1.Delegation.Delegation, r1.Delegation.Balance.Amount); got != k || r1.Delegation.Balance.Denom != pk.Denom {
			m.fail(idx, "C20.AllianceDelegation", "AllianceDelegation(%s,%s,%s) = %s, records say %s", w.Name(pk.Del), w.Name(pk.Val), pk.Denom, shortKey(got), shortKey(k))
			return
		}
		// binding: delegation
		rep.Eval("C20.binding.delegation")
		req, _ := json.Marshal(bindingtypes.AllianceQuery{Delegation: &bindingtypes.Delegation{Denom: pk.Denom, Delegator: pk.Del, Validator: pk.Val}})
		raw, err := m.cq(ctx, req)
		var br bindingtypes.DelegationResponse
		if err != nil || json.Unmarshal(raw, &br) != nil {
			m.fail(idx, "C20.binding.delegation", "binding delegation(%s,%s,%s) failed: %v", w.Name(pk.Del), w.Name(pk.Val), pk.Denom, err)
			return
		}
		if br.Amount != r1.Delegation.Balance.Amount.String() || br.Delegator != pk.Del || br.Validator != pk.Val || br.Denom != pk.Denom {
			m.fail(idx, "C20.binding.delegation", "binding delegation reports %+v, gRPC balance %s", br, r1.Delegation.Balance)
			return
		}
	}
	// absent delegation: zero balance, no error
	if len(w.Actors) > 0 && len(s.AssetOrder) > 0 {
		pk := PosKey{w.Actors[idx%len(w.Actors)].String(), w.Vals[idx%len(w.Vals)].Oper.String(), s.AssetOrder[idx%len(s.AssetOrder)]}
		if _, ok := s.Dels[pk]; !ok {
			rep.Eval("C20.AllianceDelegation.absent")
			r1, err := m.qs.AllianceDelegation(ctx, &types.QueryAllianceDelegationRequest{DelegatorAddr: pk.Del, ValidatorAddr: pk.Val, Denom: pk.Denom})
			if err != nil || !r1.Delegation.Balance.Amount.IsZero() || !r1.Delegation.Delegation.Shares.IsZero() {
				m.fail(idx, "C20.AllianceDelegation.absent", "AllianceDelegation for an absent position returned %v, %v", r1, err)
				return
			}
		}
	}
	delItems := func(ds []types.DelegationResponse) []string {
		var out []string
		for _, d := range ds {
			out = append(out, delKey(d.Delegation, d.Balance.Amount))
		}
		return out
	}
	if !m.paginated(idx, "AllAlliancesDelegations()", allDel, func(p *query.PageRequest) ([]string, []byte, uint64, error) {
		r, err := m.qs.AllAlliancesDelegations(ctx, &types.QueryAllAlliancesDelegationsRequest{Pagination: p})
		if err != nil {
			return nil, nil, 0, err
		}
		return delItems(r.Delegations), r.Pagination.NextKey, r.Pagination.Total, nil
	}) {
		return
	}
	for _, a := range w.Actors {
		del := a.String()
		if !m.paginated(idx, fmt.Sprintf("AlliancesDelegation(%s)", w.Name(del)), byDel[del], func(p *query.PageRequest) ([]string, []byte, uint64, error) {
			r, err := m.qs.AlliancesDelegation(ctx, &types.QueryAlliancesDelegationsRequest{DelegatorAddr: del, Pagination: p})
			if err != nil {
				return nil, nil, 0, err
			}
			return delItems(r.Delegations), r.Pagination.NextKey, r.Pagination.Total, nil
		}) {
			return
		}
		for _, v := range w.Vals {
			val := v.Oper.String()
			want := byDelVal[[2]string{del, val}]
			if len(want) == 0 && (idx+len(del))%5 != 0 {
				continue
			}
			if !m.paginated(idx, fmt.Sprintf("AlliancesDelegationByValidator(%s,%s)", w.Name(del), w.Name(val)), want, func(p *query.PageRequest) ([]string, []byte, uint64, error) {
				r, err := m.qs.AlliancesDelegationByValidator(ctx, &types.QueryAlliancesDelegationByValidatorRequest{DelegatorAddr: del, ValidatorAddr: val, Pagination: p})
				if err != nil {
					return nil, nil, 0, err
				}
				return delItems(r.Delegations), r.Pagination.NextKey, r.Pagination.Total, nil
			}) {
				return
			}
		}
	}
	// ---------------- unbondings (no pagination in the implementation: one answer)
	type uk struct{ del, val, den string }
	unb := map[uk][]string{}
	unbDD := map[[2]string][]string{}
	unbD := map[string][]string{}
	bucketShape := map[string]bool{}
	for _, b := range s.Unb {
		vals, dens := map[string]bool{}, map[string]bool{}
		for _, e := range b.Entries {
			k := unbKey(e.Val, e.Denom, e.Amount, b.Completion)
			unb[uk{b.Del, e.Val, e.Denom}] = append(unb[uk{b.Del, e.Val, e.Denom}], k)
			unbDD[[2]string{b.Del, e.Denom}] = append(unbDD[[2]string{b.Del, e.Denom}], k)
			if _, ok := s.Assets[e.Denom]; ok {
				unbD[b.Del] = append(unbD[b.Del], k) // ByDelegator walks the whitelisted assets
			}
			vals[e.Val] = true
			dens[e.Denom] = true
		}
		bucketShape[fmt.Sprintf("n%d/vals%d/denoms%d", min(len(b.Entries), 3), min(len(vals), 2), min(len(dens), 2))] = true
	}
	for sh := range bucketShape {
		rep.Class("C20.unbonding-bucket/" + sh)
	}
	ubItems := func(us []types.UnbondingDelegation) []string {
		var out []string
		for _, u := range us {
			out = append(out, unbKey(u.ValidatorAddress, u.Denom, u.Amount, u.CompletionTime))
		}
		return out
	}
	for _, a := range w.Actors {
		del := a.String()
		rep.Eval("C20.AllianceUnbondingsByDelegator")
		r3, err := m.qs.AllianceUnbondingsByDelegator(ctx, &types.QueryAllianceUnbondingsByDelegatorRequest{DelegatorAddr: del})
		if err != nil || !equalStringMultiset(ubItems(r3.Unbondings), unbD[del]) {
			var got []string
			if r3 != nil {
				got = ubItems(r3.Unbondings)
			}
			m.fail(idx, "C20.AllianceUnbondingsByDelegator", "AllianceUnbondingsByDelegator(%s): err %v; only in the answer %v, only in the records %v", w.Name(del), err, diffMultiset(got, unbD[del]), diffMultiset(unbD[del], got))
			return
		}
		for _, den := range append(append([]string{}, s.AssetOrder...), "nosuchdenom") {
			rep.Eval("C20.AllianceUnbondingsByDenomAndDelegator")
			r2, err := m.qs.AllianceUnbondingsByDenomAndDelegator(ctx, &types.QueryAllianceUnbondingsByDenomAndDelegatorRequest{Denom: den, DelegatorAddr: del})
			want := unbDD[[2]string{del, den}]
			if err != nil || !equalStringMultiset(ubItems(r2.Unbondings), want) {
				var got []string
				if r2 != nil {
					got = ubItems(r2.Unbondings)
				}
				m.fail(idx, "C20.AllianceUnbondingsByDenomAndDelegator", "AllianceUnbondingsByDenomAndDelegator(%s,%s): err %v; only in the answer %v, only in the records %v", den, w.Name(del), err, diffMultiset(got, want), diffMultiset(want, got))
				return
			}
			for _, v := range w.Vals {
				val := v.Oper.String()
				rep.Eval("C20.AllianceUnbondings")
				r1, err := m.qs.AllianceUnbondings(ctx, &types.QueryAllianceUnbondingsRequest{Denom: den, DelegatorAddr: del, ValidatorAddr: val})
				want := unb[uk{del, val, den}]
				if err != nil || !equalStringMultiset(ubItems(r1.Unbondings), want) {
					var got []string
					if r1 != nil {
						got = ubItems(r1.Unbondings)
					}
					m.fail(idx, "C20.AllianceUnbondings", "AllianceUnbondings(%s,%s,%s): err %v; only in the answer %v, only in the records %v", den, w.Name(del), w.Name(val), err, diffMultiset(got, want), diffMultiset(want, got))
					return
				}
			}
		}
	}
	// the amounts and completion times are the ones end-of-block will use: the raw queue equals the
	// reference list (the C02 monitor compares payouts with it)
	rep.Eval("C20.unbondings-vs-reference")
	if !m.R.Sh.TaintedSlash && !equalStringMultiset(s.UnbKeys(), m.R.Sh.UnbKeys()) {
		m.fail(idx, "C20.unbondings-vs-reference", "pending unbondings in the store differ from the reference list: only real %v, only reference %v", diffMultiset(s.UnbKeys(), m.R.Sh.UnbKeys()), diffMultiset(m.R.Sh.UnbKeys(), s.UnbKeys()))
		return
	}
	// ---------------- redelegations
	redD := map[string][]string{}
	redDD := map[[2]string][]string{}
	for _, r := range s.Redels {
		k := redelKey(r.Del, r.Src, r.Dst, r.Denom, r.Amount, r.Completion)
		redD[r.Del] = append(redD[r.Del], k)
		redDD[[2]string{r.Del, r.Denom}] = append(redDD[[2]string{r.Del, r.Denom}], k)
	}
	rdItems := func(rs []types.RedelegationEntry) []string {
		var out []string
		for _, r := range rs {
			out = append(out, redelKey(r.DelegatorAddress, r.SrcValidatorAddress, r.DstValidatorAddress, r.Balance.Denom, r.Balance.Amount, r.CompletionTime))
		}
		return out
	}
	for _, a := range w.Actors {
		del := a.String()
		if !m.paginated(idx, fmt.Sprintf("AllianceRedelegationsByDelegator(%s)", w.Name(del)), redD[del], func(p *query.PageRequest) ([]string, []byte, uint64, error) {
			r, err := m.qs.AllianceRedelegationsByDelegator(ctx, &types.QueryAllianceRedelegationsByDelegatorRequest{DelegatorAddr: del, Pagination: p})
			if err != nil {
				return nil, nil, 0, err
			}
			return rdItems(r.Redelegations), r.Pagination.NextKey, r.Pagination.Total, nil
		}) {
			return
		}
		for _, den := range s.AssetOrder {
			if !m.paginated(idx, fmt.Sprintf("AllianceRedelegations(%s,%s)", den, w.Name(del)), redDD[[2]string{del, den}], func(p *query.PageRequest) ([]string, []byte, uint64, error) {
				r, err := m.qs.AllianceRedelegations(ctx, &types.QueryAllianceRedelegationsRequest{Denom: den, DelegatorAddr: del, Pagination: p})
				if err != nil {
					return nil, nil, 0, err
				}
				return rdItems(r.Redelegations), r.Pagination.NextKey, r.Pagination.Total, nil
			}) {
				return
			}
		}
	}
	// every pending redelegation appears once: the records against the reference entries
	rep.Eval("C20.redelegations-vs-reference")
	var refRed []string
	for _, e := range m.R.Sh.Redel {
		refRed = append(refRed, redelKey(e.Del, e.Src, e.Dst, e.Denom, e.Amount, e.Completion))
	}
	var recRed []string
	for _, r := range s.Redels {
		recRed = append(recRed, redelKey(r.Del, r.Src, r.Dst, r.Denom, r.Amount, r.Completion))
	}
	if !equalStringMultiset(recRed, refRed) {
		// same key (delegator, denom, destination, completion): the store merges them into one record
		type rk struct {
			del, den, dst string
			t            int64
		}
		sum := map[rk]math.Int{}
		srcs := map[rk]map[string]bool{}
		for _, e := range m.R.Sh.Redel {
			k := rk{e.Del, e.Denom, e.Dst, e.Completion.UnixNano()}
			if cur, ok := sum[k]; ok {
				sum[k] = cur.Add(e.Amount)
			} else {
				sum[k] = e.Amount
				srcs[k] = map[string]bool{}
			}
			srcs[k][e.Src] = true
		}
		okMerge := len(s.Redels) == len(sum)
		multiSrc := false
		for _, r := range s.Redels {
			k := rk{r.Del, r.Denom, r.Dst, r.Completion.UnixNano()}
			if v, ok := sum[k]; !ok || !v.Equal(r.Amount) {
				okMerge = false
			}
			if len(srcs[k]) > 1 {
				multiSrc = true
			}
		}
		switch {
		case okMerge && multiSrc:
			rep.KnownFinding("C20", "redelegation-merge", "redelegation queries show one entry (source = the first, balance = the sum) for redelegations of one delegator from two sources into the same destination in one block")
			rep.Class("C20.known.redelegation-merge")
		case okMerge:
			rep.Class("C20.redelegation-same-source-merged") // several redelegations A->B in one block: one entry with the sum
		default:
			m.fail(idx, "C20.redelegations-vs-reference", "pending redelegation records differ from the reference entries: only records %v, only reference %v", diffMultiset(recRed, refRed), diffMultiset(refRed, recRed))
			return
		}
	}
	// ---------------- validators, alliances, params
	ctx, _ = w.Ctx.CacheContext()
	var valItems []string
	for _, vo := range s.ValOrder {
		v := s.Vals[vo]
		if !v.HasInfo {
			continue
		}
		if len(v.Info.TotalDelegatorShares) > 0 || len(v.Info.ValidatorShares) > 0 {
			valItems = append(valItems, fmt.Sprintf("%s|%s|%s", vo, sdk.DecCoins(v.Info.TotalDelegatorShares), sdk.DecCoins(v.Info.ValidatorShares)))
		}
		rep.Eval("C20.AllianceValidator")
		r, err := m.qs.AllianceValidator(ctx, &types.QueryAllianceValidatorRequest{ValidatorAddr: vo})
		if err != nil || sdk.DecCoins(r.ValidatorShares).String() != sdk.DecCoins(v.Info.ValidatorShares).String() || sdk.DecCoins(r.TotalDelegationShares).String() != sdk.DecCoins(v.Info.TotalDelegatorShares).String() {
			m.fail(idx, "C20.AllianceValidator", "AllianceValidator(%s) = %v (err %v), record has %v / %v", w.Name(vo), r, err, v.Info.TotalDelegatorShares, v.Info.ValidatorShares)
			return
		}
		for _, c := range r.TotalStaked {
			want := s.ValTokens(vo, c.Denom)
			if ratAbs(new(big.Rat).Sub(ratDec(c.Amount), want)).Cmp(budget(ratInt(s.Assets[c.Denom].TotalTokens), 1, 8)) > 0 {
				m.fail(idx, "C20.AllianceValidator", "AllianceValidator(%s) reports %s staked, records imply %s", w.Name(vo), c, ratStr(want))
				return
			}
		}
	}
	if !m.paginatedOpt(idx, "AllAllianceValidators()", valItems, true, func(p *query.PageRequest) ([]string, []byte, uint64, error) {
		r, err := m.qs.AllAllianceValidators(ctx, &types.QueryAllAllianceValidatorsRequest{Pagination: p})
		if err != nil {
			return nil, nil, 0, err
		}
		var out []string
		for _, v := range r.Validators {
			if len(v.TotalDelegationShares) == 0 && len(v.ValidatorShares) == 0 && p == nil {
				continue // empty records created on the fly by earlier queries carry no information
			}
			out = append(out, fmt.Sprintf("%s|%s|%s", v.ValidatorAddr, sdk.DecCoins(v.TotalDelegationShares), sdk.DecCoins(v.ValidatorShares)))
		}
		return out, r.Pagination.NextKey, r.Pagination.Total, nil
	}) {
		return
	}
	assetKey := func(a types.AllianceAsset) string {
		b, _ := a.Marshal()
		return string(b)
	}
	var assetItems []string
	for _, d := range s.AssetOrder {
		a := s.Assets[d]
		assetItems = append(assetItems, assetKey(a))
		rep.Eval("C20.Alliance")
		r, err := m.qs.Alliance(ctx, &types.QueryAllianceRequest{Denom: d})
		if err != nil || r.Alliance == nil || assetKey(*r.Alliance) != assetKey(a) {
			m.fail(idx, "C20.Alliance", "Alliance(%s) = %v (err %v) differs from the stored asset", d, r, err)
			return
		}
		// binding: alliance
		rep.Eval("C20.binding.alliance")
		req, _ := json.Marshal(bindingtypes.AllianceQuery{Alliance: &bindingtypes.Alliance{Denom: d}})
		raw, err := m.cq(ctx, req)
		var br bindingtypes.AllianceResponse
		if err != nil || json.Unmarshal(raw, &br) != nil {
			m.fail(idx, "C20.binding.alliance", "binding alliance(%s) failed: %v", d, err)
			return
		}
		if br.Denom != a.Denom || br.RewardWeight != a.RewardWeight.String() || br.TakeRate != a.TakeRate.String() || br.TotalTokens != a.TotalTokens.String() || br.TotalValidatorShares != a.TotalValidatorShares.String() || br.RewardChangeRate != a.RewardChangeRate.String() || br.RewardWeightRange.Min != a.RewardWeightRange.Min.String() || br.RewardWeightRange.Max != a.RewardWeightRange.Max.String() || br.IsInitialized != a.IsInitialized {
			m.fail(idx, "C20.binding.alliance", "binding alliance(%s) = %+v differs from the gRPC answer %v", d, br, a)
			return
		}
		rep.Eval("C20.binding.alliance-times")
		if br.RewardStartTime != uint64(a.RewardStartTime.UnixNano()) || br.LastRewardChangeTime != uint64(a.LastRewardChangeTime.UnixNano()) {
			if br.RewardStartTime == uint64(a.RewardStartTime.Nanosecond()) && br.LastRewardChangeTime == uint64(a.LastRewardChangeTime.Nanosecond()) {
				rep.KnownFinding("C20", "binding-time", "the contract binding reports reward_start_time / last_reward_change_time as the nanosecond-within-the-second (%d / %d) instead of the time itself (%s / %s as reported by gRPC)", br.RewardStartTime, br.LastRewardChangeTime, a.RewardStartTime.Format(time.RFC3339Nano), a.LastRewardChangeTime.Format(time.RFC3339Nano))
				rep.Class("C20.known.binding-time")
			} else {
				m.fail(idx, "C20.binding.alliance-times", "binding alliance(%s) times %d / %d match neither the gRPC times nor the recorded defect", d, br.RewardStartTime, br.LastRewardChangeTime)
				return
			}
		}
	}
	if !m.paginated(idx, "Alliances()", assetItems, func(p *query.PageRequest) ([]string, []byte, uint64, error) {
		r, err := m.qs.Alliances(ctx, &types.QueryAlliancesRequest{Pagination: p})
		if err != nil {
			return nil, nil, 0, err
		}
		var out []string
		for _, a := range r.Alliances {
			out = append(out, assetKey(a))
		}
		return out, r.Pagination.NextKey, r.Pagination.Total, nil
	}) {
		return
	}
	rep.Eval("C20.Params")
	if pr, err := m.qs.Params(ctx, &types.QueryParamsRequest{}); err != nil || pr.Params.String() != s.Params.String() {
		m.fail(idx, "C20.Params", "Params() = %v (err %v), stored %v", pr, err, s.Params)
		return
	}
	// ---------------- balance is what can be undelegated; rewards binding = gRPC rewards (on branches)
	if len(s.DelOrder) > 0 {
		order := append([]PosKey{}, s.DelOrder...)
		sort.Slice(order, func(i, j int) bool { return order[i].String() < order[j].String() })
		for n := 0; n < 2 && n < len(order); n++ {
			pk := order[(idx+n*7)%len(order)]
			ai, vi := w.ActorIndex(pk.Del), w.ValIndex(pk.Val)
			if ai < 0 || vi < 0 {
				continue
			}
			if _, ok := s.Assets[pk.Denom]; !ok {
				continue
			}
			bal := expectedBalance(s, pk)
			if bal.IsPositive() {
				rep.Eval("C20.balance-is-undelegatable")
				r1 := w.RunMsgOn(ctx, m.R.buildMsg(Step{K: "undelegate", A: ai, V: vi, Den: pk.Denom, Amt: bal.String()}), false)
				r2 := w.RunMsgOn(ctx, m.R.buildMsg(Step{K: "undelegate", A: ai, V: vi, Den: pk.Denom, Amt: bal.AddRaw(1).String()}), false)
				if r2.OK {
					m.fail(idx, "C20.balance-is-undelegatable", "(%s,%s,%s) reports a balance of %s but %s could be undelegated", w.Name(pk.Del), w.Name(pk.Val), pk.Denom, bal, bal.AddRaw(1))
					return
				}
				if !r1.OK {
					cause := classifyExitFailure(m.R, s, pk, bal, r1)
					if cause == "" {
						m.fail(idx, "C20.balance-is-undelegatable", "(%s,%s,%s) reports a balance of %s but undelegating it fails: %s", w.Name(pk.Del), w.Name(pk.Val), pk.Denom, bal, r1)
						return
					}
					rep.KnownFinding("C20", cause, "(%s,%s,%s) reports a balance of %s (exact value %s) but undelegating it fails: %s", w.Name(pk.Del), w.Name(pk.Val), pk.Denom, bal, ratStr(s.Value(pk)), r1)
					rep.Class("C20.known." + cause)
				}
			}
			// rewards: binding vs gRPC, each on its own branch (both execute a claim)
			rep.Eval("C20.binding.delegation-rewards")
			b1, _ := ctx.CacheContext()
			b2, _ := ctx.CacheContext()
			var g1 *types.QueryAllianceDelegationRewardsResponse
			var e1 error
			func() {
				defer func() {
					if p := recover(); p != nil {
						e1 = fmt.Errorf("panic: %v", p)
					}
				}()
				g1, e1 = m.qs.AllianceDelegationRewards(b1, &types.QueryAllianceDelegationRewardsRequest{DelegatorAddr: pk.Del, ValidatorAddr: pk.Val, Denom: pk.Denom})
			}()
			req, _ := json.Marshal(bindingtypes.AllianceQuery{DelegationRewards: &bindingtypes.DelegationRewards{Denom: pk.Denom, Delegator: pk.Del, Validator: pk.Val}})
			var raw []byte
			var e2 error
			func() {
				defer func() {
					if p := recover(); p != nil {
						e2 = fmt.Errorf("panic: %v", p)
					}
				}()
				raw, e2 = m.cq(b2, req)
			}()
			if (e1 == nil) != (e2 == nil) {
				m.fail(idx, "C20.binding.delegation-rewards", "rewards of (%s,%s,%s): gRPC error %v, binding error %v", w.Name(pk.Del), w.Name(pk.Val), pk.Denom, e1, e2)
				return
			}
			if e1 == nil {
				var br bindingtypes.DelegationRewardsResponse
				if json.Unmarshal(raw, &br) != nil || !br.Rewards.Equal(sdk.NewCoins(g1.Rewards...)) {
					m.fail(idx, "C20.binding.delegation-rewards", "rewards of (%s,%s,%s): gRPC %s, binding %s", w.Name(pk.Del), w.Name(pk.Val), pk.Denom, g1.Rewards, br.Rewards)
					return
				}
			}
		}
	}
	rep.Class(fmt.Sprintf("C20.state/dels%d/unb%d/red%d", min(len(s.DelOrder), 6), min(len(s.Unb), 4), min(len(s.Redels), 4)))
}

// classifyExitFailure: recorded findings that make the reported balance not undelegatable.
func classifyExitFailure(r *Runner, s *Snap, pk PosKey, bal math.Int, res TxResult) string {
	w := r.W
	ai, vi := w.ActorIndex(pk.Del), w.ValIndex(pk.Val)
	msg := res.Err + res.Panic
	if strings.Contains(msg, "insufficient funds") && strings.Contains(msg, "spendable balance") {
		return "pool-short"
	}
	c5 := NewMonC05(r)
	if cause, _ := c5.classify("undelegate", res, s, pk.Val, pk.Denom, bal.BigInt()); cause != "" {
		return cause
	}
	if (res.IsErr("staking", 22, "insufficient delegation shares") || res.IsErr("alliance", 21, "insufficient tokens")) && emulateUndelegateRefusal(s, pk, bal) {
		if bal.Equal(math.OneInt()) && ratInt(bal).Cmp(s.Value(pk)) > 0 {
			return "rounder-balance"
		}
		if bal.GT(math.OneInt()) {
			bctx, _ := w.Ctx.CacheContext()
			r.TopUpPool(bctx)
			r2 := w.RunMsgOn(bctx, r.buildMsg(Step{K: "undelegate", A: ai, V: vi, Den: pk.Denom, Amt: bal.SubRaw(1).String()}), false)
			if r2.OK {
				return "rounder-balance"
			}
		}
	}
	return ""
}

package main

// gen.go — hostile, seeded, reproducible workload generator (DESIGN.md 3.2). The generator looks at
// the current snapshot to aim at balances and deadlines; what it produces is an explicit step, and the
// explicit list of steps (not the seed) is what replay files contain.

import (
	"fmt"
	"math/big"
	"math/rand/v2"
	"sort"
	"time"

	"cosmossdk.io/math"
	stakingtypes "github.com/cosmos/cosmos-sdk/x/staking/types"
)

type Profile struct {
	Name       string
	Blocks     int
	MaxOps     int // per block
	Extreme    bool
	PSlash     float64 // per block: equivocation evidence against a created validator
	PDowntime  float64 // per block: start a downtime window for a created validator
	PNative    float64 // per op: native staking operation
	PGov       float64 // per op: governance traffic
	PGovBad    float64 // share of governance traffic that is hostile (wrong signer / fuzzed fields)
	PDonate    float64
	PClaim     float64
	BigGaps    bool // allow gaps of many take-rate intervals
	NoTake     bool
	Decay      bool
	Warmup     bool // some assets start later
	HighTake   bool
	Script     string // scripted prefix id
	NAssets    int
	ZeroWeightAsset bool
	FeeDenoms  []string
	Pack       bool // bucket packing: one delegator repeats un/redelegations within a block
}

type Gen struct {
	rng  *rand.Rand
	P    *Profile
	R    *Runner
	down map[int]int // validator index -> remaining absent blocks
	queue []Step     // scripted steps still to emit
	blocks int
	lastActor int
	// second, independent stream: decisions added later draw from it so that the histories produced by the
	// first stream stay what they were
	rng2     *rand.Rand
	operExit bool // validator operators withdraw their whole self-delegation now and then (validator-set changes)
}

func NewGen(seed uint64, idx int, p *Profile) *Gen {
	g := &Gen{rng: rand.New(rand.NewPCG(seed, uint64(idx)*0x9e3779b97f4a7c15+uint64(len(p.Name)))), P: p, down: map[int]int{}}
	g.rng2 = rand.New(rand.NewPCG(seed^0x5bd1e995, uint64(idx)*0x9e3779b97f4a7c15+uint64(len(p.Name))+77))
	g.operExit = p.PNative >= 0.2 && g.rng2.Float64() < 0.35
	return g
}

func (g *Gen) pick(n int) int {
	if n <= 0 {
		return 0
	}
	return g.rng.IntN(n)
}
func (g *Gen) chance(p float64) bool { return g.rng.Float64() < p }

func pickStr(g *Gen, xs ...string) string { return xs[g.pick(len(xs))] }

func bigFrom(s string) *big.Int {
	x, ok := new(big.Int).SetString(s, 10)
	if !ok {
		panic("bad int " + s)
	}
	return x
}

func (g *Gen) randBig(max *big.Int) *big.Int {
	if max.Sign() <= 0 {
		return big.NewInt(1)
	}
	// uniform-ish in [1, max] using 4 words of PCG output
	n := new(big.Int)
	for i := 0; i < 3; i++ {
		n.Lsh(n, 64)
		n.Or(n, new(big.Int).SetUint64(g.rng.Uint64()))
	}
	n.Mod(n, max)
	return n.Add(n, big.NewInt(1))
}

// ---- configuration of a history ------------------------------------------------------------------

func (g *Gen) Config() Config {
	p := g.P
	c := Config{NVals: 3, NActors: 5, CommunityTax: "0.02", SignedWindow: 4, JailNs: int64(10 * time.Minute), MaxValidators: 100}
	if p.Name == "native" && g.chance(0.25) {
		c.MaxValidators = 3 // validator-set churn: bonded status changes with the stakes
	}
	if g.chance(0.3) {
		c.NVals = 4
	}
	c.UnbondingNs = int64([]time.Duration{time.Hour, 24 * time.Hour, 21 * 24 * time.Hour, 10 * time.Minute}[g.pick(4)])
	c.TakeIntervalNs = int64([]time.Duration{5 * time.Minute, time.Minute, time.Hour, time.Second}[g.pick(4)])
	c.RewardDelayNs = int64([]time.Duration{0, time.Hour, 24 * time.Hour}[g.pick(3)])
	fr := []string{"0.0001", "0.01", "0.05", "0.5"}
	if p.Extreme {
		fr = []string{"0.0001", "0.05", "0.5", "0.99", "1"}
	}
	c.SlashDouble = fr[g.pick(len(fr))]
	c.SlashDowntime = fr[g.pick(len(fr))]
	if g.chance(0.3) {
		c.CommunityTax = "0"
	}
	mags := []string{"1000", "1000000", "1000000000", "1000000000000"}
	if p.Extreme {
		mags = []string{"1000", "1000000000", "1000000000000000000", "1000000000000000000000000", "1000000000000000000000000000000"}
	}
	takes := []string{"0", "0.0001", "0.001", "0.01", "0.05"}
	if p.HighTake || p.Extreme {
		takes = append(takes, "0.5", "0.999", "0.000000000000000001")
	}
	if p.NoTake {
		takes = []string{"0"}
	}
	weights := []string{"0.5", "0.1", "1", "0.02", "2"}
	na := p.NAssets
	if na == 0 {
		na = 2 + g.pick(2)
	}
	denoms := []string{"aaa", "bbb", "ibc/ccc"}
	maxMag := big.NewInt(1)
	for i := 0; i < na; i++ {
		a := AssetSpec{Denom: denoms[i], Weight: weights[g.pick(len(weights))], WMin: "0", WMax: "10", TakeRate: takes[g.pick(len(takes))], Mag: mags[g.pick(len(mags))]}
		if p.ZeroWeightAsset && i == na-1 {
			a.Weight = "0"
		}
		if p.Warmup && i > 0 && g.chance(0.5) {
			a.StartDelay = int64([]time.Duration{time.Minute, time.Hour, 3 * time.Hour}[g.pick(3)])
		} else {
			a.StartDelay = -int64(time.Hour) * int64(g.pick(2))
		}
		if p.Decay && g.chance(0.7) {
			a.ChangeRate = pickStr(g, "0.99", "0.5", "0.999999", "0.9", "0.99", "0.5", "0.75", "1.01", "0.9", "0.999")
			a.ChangeInterval = int64([]time.Duration{time.Minute, 5 * time.Minute, time.Hour, time.Second}[g.pick(4)])
			a.WMin = pickStr(g, "0", "0.01", "0.05")
			a.WMax = pickStr(g, "10", "3", "1000")
			w := parseDec(a.Weight)
			if w.LT(parseDec(a.WMin)) {
				a.WMin = a.Weight
			}
			if w.GT(parseDec(a.WMax)) {
				a.WMax = a.Weight
			}
		}
		c.Assets = append(c.Assets, a)
		if m := bigFrom(a.Mag); m.Cmp(maxMag) > 0 {
			maxMag = m
		}
	}
	c.Fund = new(big.Int).Mul(maxMag, big.NewInt(1000)).String()
	c.ExtraDenoms = []string{"uusd"}
	return c
}

// ---- step generation ----------------------------------------------------------------------------

func (g *Gen) assetSpec(denom string) *AssetSpec {
	for i := range g.R.Cfg.Assets {
		if g.R.Cfg.Assets[i].Denom == denom {
			return &g.R.Cfg.Assets[i]
		}
	}
	return nil
}

func (g *Gen) denoms() []string {
	s := g.R.Cur
	return s.AssetOrder
}

func (g *Gen) amount(denom string) string {
	mag := "1000000"
	if a := g.assetSpec(denom); a != nil {
		mag = a.Mag
	}
	m := bigFrom(mag)
	switch g.pick(8) {
	case 0:
		return "1"
	case 1:
		return m.String()
	case 2:
		return g.randBig(big.NewInt(1000)).String()
	case 3:
		return new(big.Int).Mul(m, big.NewInt(int64(1+g.pick(100)))).String()
	default:
		return g.randBig(m).String()
	}
}

func (g *Gen) positionsOf(actor string) []PosKey {
	var out []PosKey
	for _, pk := range g.R.Cur.DelOrder {
		if pk.Del == actor {
			out = append(out, pk)
		}
	}
	return out
}

func (g *Gen) balAmount(pk PosKey) string {
	bal := g.R.Cur.Reported(pk)
	switch g.pick(10) {
	case 0, 1, 2:
		return bal.String()
	case 3:
		return new(big.Int).Add(bal, big.NewInt(1)).String()
	case 4:
		if bal.Cmp(big.NewInt(1)) > 0 {
			return new(big.Int).Sub(bal, big.NewInt(1)).String()
		}
		return "1"
	case 5:
		return "1"
	case 6:
		h := new(big.Int).Quo(bal, big.NewInt(2))
		if h.Sign() == 0 {
			h = big.NewInt(1)
		}
		return h.String()
	default:
		if bal.Sign() <= 0 {
			return "1"
		}
		return g.randBig(bal).String()
	}
}

func (g *Gen) userOp() Step {
	w := g.R.W
	a := g.pick(len(w.Actors))
	if g.P.Pack {
		// few keys, many operations: mostly two delegators, and the same one repeatedly within a block
		if g.chance(0.7) {
			a = g.lastActor
		} else if g.chance(0.7) {
			a = g.pick(2)
		}
		g.lastActor = a
	}
	actor := w.Actors[a].String()
	dens := g.denoms()
	if len(dens) == 0 {
		return Step{K: "claim", A: a, V: g.pick(len(w.Vals)), Den: "aaa"}
	}
	den := dens[g.pick(len(dens))]
	pos := g.positionsOf(actor)
	k := g.rng.Float64()
	switch {
	case k < 0.30 || len(pos) == 0:
		return Step{K: "delegate", A: a, V: g.pick(len(w.Vals)), Den: den, Amt: g.amount(den)}
	case k < 0.30+g.P.PClaim:
		pk := pos[g.pick(len(pos))]
		return Step{K: "claim", A: a, V: w.ValIndex(pk.Val), Den: pk.Denom}
	case k < 0.65+g.P.PClaim/2:
		pk := pos[g.pick(len(pos))]
		if g.chance(0.08) {
			return Step{K: "undelegate", A: a, V: g.pick(len(w.Vals)), Den: den, Amt: g.amount(den)}
		}
		return Step{K: "undelegate", A: a, V: w.ValIndex(pk.Val), Den: pk.Denom, Amt: g.balAmount(pk)}
	default:
		pk := pos[g.pick(len(pos))]
		src := w.ValIndex(pk.Val)
		dst := g.pick(len(w.Vals))
		if dst == src && g.chance(0.9) {
			dst = (dst + 1) % len(w.Vals)
		}
		return Step{K: "redelegate", A: a, V: src, W: dst, Den: pk.Denom, Amt: g.balAmount(pk)}
	}
}

func (g *Gen) nativeOp() Step {
	w := g.R.W
	if g.operExit && len(w.Vals) < 7 && g.rng2.Float64() < 0.03 {
		// a new validator joins the set (with few validators allowed it may push another one out)
		return Step{K: "create_val", Amt: fmt.Sprint(500_000 + g.rng2.Int64N(9_000_000))}
	}
	if g.operExit && len(w.Vals) > 1 && g.rng2.Float64() < 0.06 {
		// an operator leaves: the validator is jailed, unbonds and is removed by x/staking once nothing is
		// delegated to it any more (alliance-minted stake on it keeps it alive)
		return Step{K: "oper_exit", V: 1 + g.rng2.IntN(len(w.Vals)-1)}
	}
	a := g.pick(len(w.Actors))
	v := g.pick(len(w.Vals))
	switch g.pick(6) {
	case 0, 1:
		return Step{K: "ndelegate", A: a, V: v, Amt: fmt.Sprint(1 + g.rng.Int64N(5_000_000))}
	case 2:
		return Step{K: "nundelegate", A: a, V: v, Amt: fmt.Sprint(1 + g.rng.Int64N(2_000_000))}
	case 3:
		// full undelegation of whatever this actor has on v
		d, err := w.App.StakingKeeper.GetDelegation(w.Ctx, w.Actors[a], w.Vals[v].Oper)
		if err == nil {
			val, err := w.App.StakingKeeper.GetValidator(w.Ctx, w.Vals[v].Oper)
			if err == nil {
				t := val.TokensFromShares(d.Shares).TruncateInt()
				if t.IsPositive() {
					return Step{K: "nundelegate", A: a, V: v, Amt: t.String()}
				}
			}
		}
		return Step{K: "ndelegate", A: a, V: v, Amt: fmt.Sprint(1 + g.rng.Int64N(5_000_000))}
	case 4:
		return Step{K: "nredelegate", A: a, V: v, W: g.pick(len(w.Vals)), Amt: fmt.Sprint(1 + g.rng.Int64N(2_000_000))}
	default:
		// unjail a jailed validator if there is one
		for i := 1; i < len(w.Vals); i++ {
			vs := g.R.Cur.Vals[w.Vals[i].Oper.String()]
			if vs != nil && vs.Jailed {
				return Step{K: "unjail", V: i}
			}
		}
		return Step{K: "ndelegate", A: a, V: v, Amt: fmt.Sprint(1 + g.rng.Int64N(5_000_000))}
	}
}

var decPool = []string{"0", "0.000000000000000001", "0.0001", "0.01", "0.05", "0.1", "0.5", "0.99", "0.999999999999999999", "1", "1.000000000000000001", "1.5", "2", "10", "1000000", "-0.1", "-1", "nil"}

func (g *Gen) govOp() Step {
	s := g.R.Cur
	bad := g.chance(g.P.PGovBad)
	gs := &GovSpec{Signer: "auth"}
	if bad && g.chance(0.5) {
		gs.Signer = pickStr(g, "actor", "mod", "pool", "distr", "empty", "garbage")
	}
	denom := pickStr(g, "aaa", "bbb", "ibc/ccc", "ddd", "eee")
	if bad && g.chance(0.15) {
		denom = pickStr(g, "", "1bad", "a", "stake", "x y")
	}
	gs.Denom = denom
	cur, exists := s.Assets[denom]
	kind := g.pick(10)
	sane := func() {
		gs.Weight = pickStr(g, "0", "0.02", "0.1", "0.5", "1", "2")
		gs.WMin = "0"
		gs.WMax = pickStr(g, "10", "5", "2")
		gs.Take = pickStr(g, "0", "0.0001", "0.01", "0.05")
		gs.Rate = "1"
		gs.Interval = 0
		if g.P.Decay && g.chance(0.6) {
			gs.Rate = pickStr(g, "0.99", "0.5", "0.9", "0.75", "0.999", "0.5", "1.01", "0.9", "1.2", "0.99")
			gs.Interval = int64([]time.Duration{time.Second, time.Minute, 5 * time.Minute, time.Hour}[g.pick(4)])
			// half-configured decay (accepted by governance): rate 1 with an interval, or a rate with interval 0
			switch g.pick(6) {
			case 0:
				gs.Rate = "1"
			case 1:
				gs.Interval = 0
			}
		}
		if g.P.NoTake {
			gs.Take = "0"
		}
		if g.P.HighTake && g.chance(0.3) {
			gs.Take = pickStr(g, "0.5", "0.999")
		}
	}
	fuzz := func() {
		gs.Weight = decPool[g.pick(len(decPool))]
		gs.WMin = decPool[g.pick(len(decPool))]
		gs.WMax = decPool[g.pick(len(decPool))]
		gs.Take = decPool[g.pick(len(decPool))]
		gs.Rate = decPool[g.pick(len(decPool))]
		gs.Interval = []int64{0, 1, -1, int64(time.Second), int64(time.Hour), -int64(time.Hour), 1 << 62}[g.pick(7)]
	}
	k := "gov_update"
	switch {
	case kind < 5:
		k = "gov_update"
		if !exists && !bad && len(s.AssetOrder) > 0 {
			gs.Denom = s.AssetOrder[g.pick(len(s.AssetOrder))]
			cur = s.Assets[gs.Denom]
		}
	case kind < 7:
		k = "gov_create"
		if exists && !bad {
			gs.Denom = pickStr(g, "ddd", "eee", "eee", BondDenom)
		}
	case kind < 8:
		k = "gov_delete"
	default:
		k = "gov_params"
	}
	_ = cur
	if bad {
		fuzz()
		if g.chance(0.4) { // mostly sane with one fuzzed field: reaches deeper checks
			f := *gs
			sane()
			switch g.pick(6) {
			case 0:
				gs.Weight = f.Weight
			case 1:
				gs.WMin = f.WMin
			case 2:
				gs.WMax = f.WMax
			case 3:
				gs.Take = f.Take
			case 4:
				gs.Rate = f.Rate
			case 5:
				gs.Interval = f.Interval
			}
		}
	} else {
		sane()
	}
	if k == "gov_params" {
		gs.DelayNs = []int64{0, int64(time.Hour), int64(24 * time.Hour), int64(time.Second)}[g.pick(4)]
		gs.TakeIvlNs = []int64{int64(time.Second), int64(time.Minute), int64(5 * time.Minute), int64(time.Hour)}[g.pick(4)]
		gs.KeepClock = true
		if bad {
			gs.DelayNs = []int64{0, -1, int64(time.Hour), -int64(time.Hour), 1 << 62}[g.pick(5)]
			gs.TakeIvlNs = []int64{0, 1, -1, int64(time.Minute), 1 << 62}[g.pick(5)]
			gs.KeepClock = g.chance(0.5)
			if !gs.KeepClock {
				gs.LastClaim = []int64{0, s.Time.UnixNano(), s.Time.Add(-time.Hour).UnixNano(), s.Time.Add(time.Hour).UnixNano(), 1}[g.pick(5)]
			}
		}
	}
	if k != "gov_params" && g.chance(0.25) {
		gs.NoValidate = g.chance(0.5)
		return Step{K: "legacy" + k[3:], A: g.pick(len(g.R.W.Actors)), Gov: gs}
	}
	return Step{K: k, A: g.pick(len(g.R.W.Actors)), Gov: gs}
}

// deadlines collects the instants the properties care about (deadline sniping).
func (g *Gen) deadlines() []time.Time {
	s := g.R.Cur
	var ds []time.Time
	for _, b := range s.Unb {
		ds = append(ds, b.Completion)
	}
	for _, r := range s.Redels {
		ds = append(ds, r.Completion)
	}
	if s.Params.TakeRateClaimInterval > 0 {
		ds = append(ds, s.Params.LastTakeRateClaimTime.Add(s.Params.TakeRateClaimInterval))
	}
	for _, d := range s.AssetOrder {
		a := s.Assets[d]
		ds = append(ds, a.RewardStartTime)
		if a.RewardChangeInterval > 0 {
			ds = append(ds, a.LastRewardChangeTime.Add(a.RewardChangeInterval))
		}
	}
	var out []time.Time
	for _, d := range ds {
		if d.After(s.Time.Add(-2)) && d.Sub(s.Time) < 400*24*time.Hour {
			out = append(out, d)
		}
	}
	sort.Slice(out, func(i, j int) bool { return out[i].Before(out[j]) })
	return out
}

func (g *Gen) dt() int64 {
	s := g.R.Cur
	I := s.Params.TakeRateClaimInterval
	if I <= 0 {
		I = time.Minute
	}
	U := s.Unbonding
	if g.chance(0.45) {
		ds := g.deadlines()
		if len(ds) > 0 {
			// prefer the nearest deadlines
			d := ds[g.pick(min(len(ds), 3))]
			delta := d.Sub(s.Time) + time.Duration(g.pick(3)-1)
			if delta > 0 {
				return int64(delta)
			}
		}
	}
	cands := []time.Duration{1, time.Second, 6 * time.Second, 6 * time.Second, I - 1, I, I + 1, I / 2, I + I/2}
	if g.P.BigGaps {
		cands = append(cands, 2*I, 3*I+1, 10*I, 1000*I+7, U+1, 10*U)
	} else {
		// keep the take-rate clock lag below two intervals outside scripted scenarios (C09 clock-lag)
		lag := s.Time.Sub(s.Params.LastTakeRateClaimTime)
		var ok []time.Duration
		for _, c := range cands {
			if lag+c < 2*I {
				ok = append(ok, c)
			}
		}
		if len(ok) == 0 {
			ok = []time.Duration{1, time.Second}
			if lag+time.Second >= 2*I {
				ok = []time.Duration{1}
			}
		}
		cands = ok
		if g.chance(0.12) {
			// jump over unbonding periods when that keeps the lag bounded or the take rate is off
			cands = append(cands, U/2, U, U+1)
		}
	}
	d := cands[g.pick(len(cands))]
	if d <= 0 {
		d = 1
	}
	return int64(d)
}

func (g *Gen) blockStep() Step {
	w := g.R.W
	s := g.R.Cur
	spec := &BlockSpec{DtNs: g.dt()}
	// fees: bond denom + foreign denom (+ sometimes an alliance denom directly)
	fee := fmt.Sprintf("%d%s", 100_000+g.rng.Int64N(5_000_000), BondDenom)
	if g.chance(0.6) {
		fee += fmt.Sprintf(",%duusd", 1+g.rng.Int64N(3_000_000))
	}
	if g.chance(0.1) {
		fee = ""
	}
	spec.Fees = fee
	if g.chance(g.P.PSlash) && len(w.Vals) > 1 {
		v := 1 + g.pick(len(w.Vals)-1)
		vs := s.Vals[w.Vals[v].Oper.String()]
		if vs != nil && vs.Exists {
			ev := Evidence{Val: v, HeightBack: int64(1 + g.pick(4))}
			if g.chance(0.3) {
				ev.Power = int64(1 + g.pick(40))
			}
			spec.Evidence = append(spec.Evidence, ev)
			if g.chance(0.15) && len(w.Vals) > 2 { // two slashes in one block
				v2 := 1 + g.pick(len(w.Vals)-1)
				if v2 != v {
					spec.Evidence = append(spec.Evidence, Evidence{Val: v2, HeightBack: 1})
				}
			}
		}
	}
	if g.chance(g.P.PDowntime) && len(w.Vals) > 1 {
		v := 1 + g.pick(len(w.Vals)-1)
		g.down[v] = 3 + g.pick(3)
	}
	for v, n := range g.down {
		if n > 0 {
			spec.Absent = append(spec.Absent, v)
			g.down[v] = n - 1
		}
	}
	sort.Ints(spec.Absent)
	return Step{K: "block", Block: spec}
}

// Next produces the next step of the random continuation.
func (g *Gen) Next(opsLeftInBlock *int) Step {
	if len(g.queue) > 0 {
		s := g.queue[0]
		g.queue = g.queue[1:]
		return s
	}
	if g.P.Pack && g.chance(0.01) || (!g.P.Pack && g.chance(0.003)) {
		u := []time.Duration{10 * time.Minute, time.Hour, 24 * time.Hour, 3 * 24 * time.Hour}[g.pick(4)]
		return Step{K: "set_unbonding", Amt: fmt.Sprint(int64(u))}
	}
	if *opsLeftInBlock <= 0 {
		*opsLeftInBlock = g.pick(g.P.MaxOps + 1)
		g.blocks++
		return g.blockStep()
	}
	*opsLeftInBlock--
	x := g.rng.Float64()
	switch {
	case x < g.P.PNative:
		return g.nativeOp()
	case x < g.P.PNative+g.P.PGov:
		return g.govOp()
	case x < g.P.PNative+g.P.PGov+g.P.PDonate:
		a := g.pick(len(g.R.W.Actors))
		dens := g.denoms()
		d := BondDenom
		if len(dens) > 0 && g.chance(0.7) {
			d = dens[g.pick(len(dens))]
		}
		return Step{K: "donate", A: a, Amt: fmt.Sprintf("%d%s", 1+g.rng.Int64N(1000), d)}
	default:
		return g.userOp()
	}
}

func tokensOf(v stakingtypes.Validator, sh math.LegacyDec) math.Int {
	return v.TokensFromShares(sh).TruncateInt()
}

package main

// model.go — exact-rational ledger copy and the *specified* slash semantics (C06/C07), order-agnostic
// over entries that hit the same destination (DESIGN.md section 5, C06).

import (
	"fmt"
	"math/big"
	"os"
	"sort"

	"cosmossdk.io/math"
)

type Ledger struct {
	s   map[PosKey]*big.Rat    // delegation shares
	S   map[[2]string]*big.Rat // (val, denom) total delegator shares
	vs  map[[2]string]*big.Rat // (val, denom) validator shares
	tvs map[string]*big.Rat
	tt  map[string]*big.Rat
}

func LedgerOf(s *Snap) *Ledger {
	l := &Ledger{s: map[PosKey]*big.Rat{}, S: map[[2]string]*big.Rat{}, vs: map[[2]string]*big.Rat{}, tvs: map[string]*big.Rat{}, tt: map[string]*big.Rat{}}
	for d, a := range s.Assets {
		l.tvs[d] = ratDec(a.TotalValidatorShares)
		l.tt[d] = ratInt(a.TotalTokens)
	}
	for vo, v := range s.Vals {
		if !v.HasInfo {
			continue
		}
		for _, c := range v.Info.TotalDelegatorShares {
			l.S[[2]string{vo, c.Denom}] = ratDec(c.Amount)
		}
		for _, c := range v.Info.ValidatorShares {
			l.vs[[2]string{vo, c.Denom}] = ratDec(c.Amount)
		}
	}
	for pk, d := range s.Dels {
		l.s[pk] = ratDec(d.Shares)
	}
	return l
}

func (l *Ledger) Clone() *Ledger {
	c := &Ledger{s: map[PosKey]*big.Rat{}, S: map[[2]string]*big.Rat{}, vs: map[[2]string]*big.Rat{}, tvs: map[string]*big.Rat{}, tt: map[string]*big.Rat{}}
	for k, v := range l.s {
		c.s[k] = new(big.Rat).Set(v)
	}
	for k, v := range l.S {
		c.S[k] = new(big.Rat).Set(v)
	}
	for k, v := range l.vs {
		c.vs[k] = new(big.Rat).Set(v)
	}
	for k, v := range l.tvs {
		c.tvs[k] = new(big.Rat).Set(v)
	}
	for k, v := range l.tt {
		c.tt[k] = new(big.Rat).Set(v)
	}
	return c
}

func (l *Ledger) ValTokens(val, denom string) *big.Rat {
	vs := l.vs[[2]string{val, denom}]
	tvs := l.tvs[denom]
	tt := l.tt[denom]
	if vs == nil || tvs == nil || tt == nil {
		return new(big.Rat)
	}
	if tvs.Sign() == 0 {
		return new(big.Rat).Set(tt)
	}
	x := new(big.Rat).Quo(vs, tvs)
	return x.Mul(x, tt)
}

func (l *Ledger) Value(p PosKey) *big.Rat {
	s := l.s[p]
	S := l.S[[2]string{p.Val, p.Denom}]
	if s == nil || s.Sign() == 0 {
		return new(big.Rat) // a position without shares owns nothing
	}
	if S == nil || S.Sign() == 0 {
		return l.ValTokens(p.Val, p.Denom)
	}
	x := new(big.Rat).Quo(s, S)
	return x.Mul(x, l.ValTokens(p.Val, p.Denom))
}

// budget: one base unit (two, for two roundings) plus the relative error of 18-digit fixed-point
// arithmetic scaled by the asset's staked total (DESIGN.md 4.2).
func budget(tt *big.Rat, units int64, ulps int64) *big.Rat {
	// never below 1e-15 of the scale: chains of 18-digit operations compound, and at 1e15 base units this
	// is still one unit (so realistic magnitudes keep the "one base unit" reading of the properties)
	if ulps < 1000 {
		ulps = 1000
	}
	b := new(big.Rat).Mul(tt, big.NewRat(ulps, 1_000_000_000_000_000_000))
	return b.Add(b, ratI64(units))
}

type RedelHit struct {
	Del, Dst, Denom string
	Amount          math.Int
	ID              int
	Completion      int64
}

// mergeHits merges hits that the store keeps in one record (same delegator, destination, asset and
// completion time - and, all being hits of one slash, the same source): reducing by f x (a1+a2) at
// once or by f x a1 and then f x a2 are both readings of the property; they differ to second order.
func mergeHits(hs []RedelHit) []RedelHit {
	var out []RedelHit
	idx := map[string]int{}
	for _, h := range hs {
		k := fmt.Sprintf("%s|%s|%s|%d", h.Del, h.Dst, h.Denom, h.Completion)
		if i, ok := idx[k]; ok {
			out[i].Amount = out[i].Amount.Add(h.Amount)
		} else {
			idx[k] = len(out)
			out = append(out, h)
		}
	}
	return out
}

// ApplyBondedSlash applies the bonded part of the specified slash to the ledger.
func (l *Ledger) ApplyBondedSlash(val string, f *big.Rat) {
	for key, vs := range l.vs {
		if key[0] != val {
			continue
		}
		cut := new(big.Rat).Mul(vs, f)
		l.vs[key] = new(big.Rat).Sub(vs, cut)
		l.tvs[key[1]] = new(big.Rat).Sub(l.tvs[key[1]], cut)
	}
}

// ApplyRedelHit removes min(value, floor(f*amount)) worth of delegator shares at the destination.
func (l *Ledger) ApplyRedelHit(h RedelHit, f *big.Rat) {
	pk := PosKey{h.Del, h.Dst, h.Denom}
	if l.s[pk] == nil || l.s[pk].Sign() == 0 {
		return
	}
	tok := new(big.Rat).SetInt(ratFloor(new(big.Rat).Mul(ratInt(h.Amount), f)))
	val := l.Value(pk)
	if val.Sign() == 0 {
		return
	}
	if tok.Cmp(val) > 0 {
		tok = val
	}
	sh := new(big.Rat).Mul(new(big.Rat).Quo(tok, val), l.s[pk])
	l.s[pk] = new(big.Rat).Sub(l.s[pk], sh)
	kk := [2]string{h.Dst, h.Denom}
	if l.S[kk] != nil {
		l.S[kk] = new(big.Rat).Sub(l.S[kk], sh)
	}
}

func permutations(n int) [][]int {
	var out [][]int
	a := make([]int, n)
	for i := range a {
		a[i] = i
	}
	var gen func(k int)
	gen = func(k int) {
		if k == n {
			out = append(out, append([]int{}, a...))
			return
		}
		for i := k; i < n; i++ {
			a[k], a[i] = a[i], a[k]
			gen(k + 1)
			a[k], a[i] = a[i], a[k]
		}
	}
	gen(0)
	return out
}

// SlashModelCheck compares the real post-slash state with the specified slash applied to the
// pre-state. hits are the still-pending redelegations out of the slashed validator. Returns a
// description of the first mismatch that no admissible application order explains, or "".
func SlashModelCheck(w *World, pre, post *Snap, val string, fdec math.LegacyDec, hits []RedelHit) (string, int) {
	f := ratDec(fdec)
	base := LedgerOf(pre)
	base.ApplyBondedSlash(val, f)
	postL := LedgerOf(post)
	checked := 0
	// group hits by (dst, denom)
	groups := map[[2]string][]RedelHit{}
	for _, h := range hits {
		k := [2]string{h.Dst, h.Denom}
		groups[k] = append(groups[k], h)
	}
	var gkeys [][2]string
	for k := range groups {
		gkeys = append(gkeys, k)
	}
	sort.Slice(gkeys, func(i, j int) bool { return gkeys[i][0]+gkeys[i][1] < gkeys[j][0]+gkeys[j][1] })
	// positions grouped by (val, denom)
	byVD := map[[2]string][]PosKey{}
	for _, pk := range pre.DelOrder {
		k := [2]string{pk.Val, pk.Denom}
		byVD[k] = append(byVD[k], pk)
	}
	extra := new(big.Rat)
	cmp := func(l *Ledger, pks []PosKey) string {
		for _, pk := range pks {
			want := l.Value(pk)
			got := postL.Value(pk)
			b := budget(base.tt[pk.Denom], 2, 20)
			b.Add(b, extra)
			if ratAbs(new(big.Rat).Sub(got, want)).Cmp(b) > 0 {
				if os.Getenv("VMON_DEBUG") != "" {
					pl := LedgerOf(pre)
					k2 := [2]string{pk.Val, pk.Denom}
					fs := func(x *big.Rat) string {
						if x == nil {
							return "nil"
						}
						return x.FloatString(18)
					}
					fmt.Printf("DEBUG pos %s\n pre  s=%s S=%s vs=%s tvs=%s tt=%s\n model s=%s S=%s vs=%s tvs=%s\n post s=%s S=%s vs=%s tvs=%s\n hits=%v f=%s\n", pk, fs(pl.s[pk]), fs(pl.S[k2]), fs(pl.vs[k2]), fs(pl.tvs[pk.Denom]), fs(pl.tt[pk.Denom]), fs(l.s[pk]), fs(l.S[k2]), fs(l.vs[k2]), fs(l.tvs[pk.Denom]), fs(postL.s[pk]), fs(postL.S[k2]), fs(postL.vs[k2]), fs(postL.tvs[pk.Denom]), hits, f.FloatString(18))
				}
				return fmt.Sprintf("position (%s,%s,%s): value after slash %s, specified %s (before %s)", w.Name(pk.Del), w.Name(pk.Val), pk.Denom, ratStr(got), ratStr(want), ratStr(pre.Value(pk)))
			}
		}
		return ""
	}
	for vd, pks := range byVD {
		if t := base.tvs[vd[1]]; t != nil && t.Sign() == 0 && base.tt[vd[1]].Sign() > 0 {
			// the slash removed every validator share of this asset (f = 1 on its sole holder): the staked
			// total is orphaned and no factor g exists; proportionality is not defined here (DESIGN.md C06)
			continue
		}
		checked += len(pks)
		hs := groups[vd]
		if len(hs) == 0 {
			extra = new(big.Rat)
			if msg := cmp(base, pks); msg != "" {
				return msg, checked
			}
			continue
		}
		if len(hs) > 6 {
			// order-independent bounds only: the validator's token total is conserved by the removals
			l := base.Clone()
			for _, h := range hs {
				l.ApplyRedelHit(h, f)
			}
			wantTot := base.ValTokens(vd[0], vd[1])
			gotTot := postL.ValTokens(vd[0], vd[1])
			if ratAbs(new(big.Rat).Sub(wantTot, gotTot)).Cmp(budget(base.tt[vd[1]], 2, 20)) > 0 {
				return fmt.Sprintf("validator %s %s token total %s, specified %s", w.Name(vd[0]), vd[1], ratStr(gotTot), ratStr(wantTot)), checked
			}
			continue
		}
		best := ""
		ok := false
		variants := [][]RedelHit{hs}
		if mh := mergeHits(hs); len(mh) != len(hs) {
			variants = append(variants, mh)
		}
		for _, hs := range variants {
			if ok {
				break
			}
			for _, pm := range permutations(len(hs)) {
				l := base.Clone()
				for _, i := range pm {
					l.ApplyRedelHit(hs[i], f)
				}
				// error budget of the share removals: converting tokens to shares uses an 18-digit quotient, so
				// each removal is off by up to 2e-18 x tokens shares; a share is worth V/S_after tokens afterwards
				// (this dominates when nearly all shares of the validator are removed: cancellation)
				extra = new(big.Rat)
				shareErr := new(big.Rat)
				if Safter := l.S[vd]; Safter != nil && Safter.Sign() > 0 {
					// shares removed in total, and the 18-digit error of computing them: the validator's token
					// value vs/tvs*TT carries a relative error of 1e-18*TT/valTokens, the quotient S/valTokens
					// an absolute one of 1e-18 (times the tokens slashed)
					vt := l.ValTokens(vd[0], vd[1])
					removed := new(big.Rat).Sub(base.S[vd], Safter)
					dsh := new(big.Rat)
					if vt.Sign() > 0 {
						rel := new(big.Rat).Quo(base.tt[vd[1]], vt)
						rel.Add(rel, ratI64(1))
						dsh.Mul(removed, rel)
					}
					for _, h := range hs {
						dsh.Add(dsh, ratFloor2(new(big.Rat).Mul(ratInt(h.Amount), f)))
					}
					dsh.Mul(dsh, big.NewRat(2, 1_000_000_000_000_000_000))
					// the module removes the whole delegation when what would be left is below its rounding
					// tolerance of 0.01 shares
					dsh.Add(dsh, new(big.Rat).Mul(big.NewRat(1, 100), ratI64(int64(len(hs)))))
					extra.Mul(dsh, new(big.Rat).Quo(vt, Safter))
					shareErr = dsh
				}
				msg := cmp(l, pks)
				if msg == "" {
					ok = true
					break
				}
				// below one delegator share on (validator, asset) the module converts tokens to shares 1:1
				// (recorded mechanisms dust-capture / subshare-stuck): share arithmetic is not what the
				// property describes there; such dust groups are outside its domain
				if Sa := l.S[vd]; Sa != nil && new(big.Rat).Sub(Sa, shareErr).Cmp(ratI64(1)) < 0 {
					ok = true
					break
				}
				best = msg
			}
		}
		if !ok {
			return best + fmt.Sprintf(" [%d pending redelegations into this validator/denom, no application order matches]", len(hs)), checked
		}
	}
	// asset level: staked totals untouched, share totals reduced by exactly the validator's cut
	ulp := big.NewRat(1, 1_000_000_000_000_000_000) // one unit of the 18-digit share representation
	for d := range base.tt {
		if postL.tt[d] == nil || postL.tt[d].Cmp(base.tt[d]) != 0 {
			return fmt.Sprintf("asset %s staked total changed by the slash: %s -> %s", d, ratStr(base.tt[d]), ratStr(postL.tt[d])), checked
		}
		if ratAbs(new(big.Rat).Sub(postL.tvs[d], base.tvs[d])).Cmp(ulp) > 0 {
			return fmt.Sprintf("asset %s share total after slash %s, specified %s", d, postL.tvs[d].FloatString(18), base.tvs[d].FloatString(18)), checked
		}
	}
	for k, v := range base.vs {
		pv := postL.vs[k]
		if pv == nil {
			pv = new(big.Rat)
		}
		if ratAbs(new(big.Rat).Sub(pv, v)).Cmp(ulp) > 0 {
			return fmt.Sprintf("validator %s %s shares after slash %s, specified %s", w.Name(k[0]), k[1], pv.FloatString(18), v.FloatString(18)), checked
		}
	}
	return "", checked
}

func ratFloor2(x *big.Rat) *big.Rat { return new(big.Rat).SetInt(ratFloor(x)) }

package main

// mon_queue.go — history + reference-model monitors over the unbonding / redelegation queues and
// the slash callback: C02 payouts, C06 bonded slash, C07 slash of pending entries, C08 callback
// totality, C15 redelegation.

import (
	"fmt"
	"math/big"
	"sort"
	"strings"

	"cosmossdk.io/math"
	sdk "github.com/cosmos/cosmos-sdk/types"
)

// ================================================================================================
// C02 unbonding payout
// ================================================================================================

type MonC02 struct {
	BaseMon
}

func NewMonC02(r *Runner) *MonC02 { return &MonC02{BaseMon{r}} }
func (m *MonC02) Name() string    { return "C02" }

func (m *MonC02) AfterTx(o *TxOutcome) {
	rep := m.R.Rep
	if o.Step.K == "undelegate" && o.Res.OK {
		rep.Eval("C02.entry-created")
		// the new entry (and nothing else) appears in the queue, completion = block time + unbonding period
		if !equalStringMultiset(o.Post.UnbKeys(), m.R.Sh.UnbKeys()) {
			rep.Violate("C02", "C02.entry-created", o.Idx, "after undelegate(%s) the pending queue differs from the reference list: real %v, reference %v", o.Amount, diffMultiset(o.Post.UnbKeys(), m.R.Sh.UnbKeys()), diffMultiset(m.R.Sh.UnbKeys(), o.Post.UnbKeys()))
			return
		}
		// situation classes: bucket packing
		n, sameVD, vals, dens := 0, 0, map[string]bool{}, map[string]bool{}
		last := m.R.Sh.Unb[len(m.R.Sh.Unb)-1]
		for _, u := range m.R.Sh.Unb {
			if u.Del == last.Del && u.Completion.Equal(last.Completion) {
				n++
				vals[u.Val] = true
				dens[u.Denom] = true
				if u.Val == last.Val && u.Denom == last.Denom {
					sameVD++
				}
			}
		}
		rep.Class(fmt.Sprintf("C02.bucket/n%d/vals%d/denoms%d/sameVD%d", min(n, 3), min(len(vals), 2), min(len(dens), 2), min(sameVD, 2)))
		// no payout at undelegation time: the delegator's asset balance changes only by reward payouts
		rep.Eval("C02.no-early-payout")
		d := o.Post.Bal[o.Actor].AmountOf(o.Step.Den).Sub(o.Pre.Bal[o.Actor].AmountOf(o.Step.Den))
		fromPool := math.ZeroInt()
		for _, t := range o.Ev.Transfers {
			if t.To == o.Actor && t.From == m.R.W.PoolAddr.String() {
				fromPool = fromPool.Add(t.Coins.AmountOf(o.Step.Den))
			}
		}
		if !d.Equal(fromPool) {
			rep.Violate("C02", "C02.no-early-payout", o.Idx, "undelegate changed the delegator's %s balance by %s at once (reward payouts explain %s)", o.Step.Den, d, fromPool)
		}
	} else if o.Res.OK || o.Step.K != "undelegate" {
		// any other step leaves the queue alone
		rep.Eval("C02.queue-stable")
		if !equalStringMultiset(o.Post.UnbKeys(), o.Pre.UnbKeys()) {
			rep.Violate("C02", "C02.queue-stable", o.Idx, "%s changed the pending unbonding queue", o.Step.K)
		}
	}
}

func diffMultiset(a, b []string) []string {
	cnt := map[string]int{}
	for _, x := range b {
		cnt[x]++
	}
	var out []string
	for _, x := range a {
		if cnt[x] > 0 {
			cnt[x]--
		} else {
			out = append(out, shortKey(x))
		}
	}
	return out
}

func shortKey(k string) string {
	parts := strings.Split(k, "|")
	for i, p := range parts {
		if len(p) > 12 && (strings.HasPrefix(p, "cosmos")) {
			parts[i] = p[len(p)-6:]
		}
	}
	return strings.Join(parts, "|")
}

func (m *MonC02) AfterBlock(o *BlockOutcome) {
	rep := m.R.Rep
	if o.EndRes.Failed() {
		return
	}
	w := m.R.W
	mod := w.ModAddr.String()
	T := o.Pre.Time
	// expected payouts of this end-block
	want := map[[2]string]math.Int{}
	for _, u := range o.Matured {
		k := [2]string{u.Del, u.Denom}
		if cur, ok := want[k]; ok {
			want[k] = cur.Add(u.Amount)
		} else {
			want[k] = u.Amount
		}
		rel := "later"
		rep.Class("C02.payout/slashed" + fmt.Sprint(min(u.Slashes, 2)) + "/" + rel)
		if u.Amount.IsZero() {
			rep.Class("C02.payout/zero-entry") // slashed down to nothing before maturity: removed without a payment
		}
	}
	for _, u := range m.R.Sh.Unb {
		if u.Completion.Equal(T) {
			rep.Class("C02.boundary/completion=blocktime-not-paid")
		} else if u.Completion.Sub(T) == 1 {
			rep.Class("C02.boundary/completion=blocktime+1ns")
		}
	}
	for _, u := range o.Matured {
		if T.Sub(u.Completion) == 1 {
			rep.Class("C02.boundary/completion=blocktime-1ns-paid")
		}
	}
	got := map[[2]string]math.Int{}
	for _, t := range o.EndEv.Transfers {
		if t.From != mod {
			continue
		}
		switch t.To {
		case w.FcAddr.String(), w.PoolAddr.String(), w.BondedAddr.String(), w.NotBondedAddr.String():
			continue
		}
		for _, c := range t.Coins {
			k := [2]string{t.To, c.Denom}
			if cur, ok := got[k]; ok {
				got[k] = cur.Add(c.Amount)
			} else {
				got[k] = c.Amount
			}
		}
	}
	rep.Eval("C02.payout")
	if len(o.Matured) > 0 {
		var ms []string
		for _, u := range o.Matured {
			ms = append(ms, shortKey(u.Key()))
		}
		rep.Sample(map[string]any{"observed": "end-of-block payout", "block_time_unix_ns": T.UnixNano(), "matured_reference_entries": ms, "transfers_from_custody": len(o.EndEv.Transfers)})
	}
	keys := map[[2]string]bool{}
	for k := range want {
		keys[k] = true
	}
	for k := range got {
		keys[k] = true
	}
	var ks [][2]string
	for k := range keys {
		ks = append(ks, k)
	}
	sort.Slice(ks, func(i, j int) bool { return ks[i][0]+ks[i][1] < ks[j][0]+ks[j][1] })
	for _, k := range ks {
		wv, ok := want[k]
		if !ok {
			wv = math.ZeroInt()
		}
		gv, ok := got[k]
		if !ok {
			gv = math.ZeroInt()
		}
		if !wv.Equal(gv) {
			rep.Violate("C02", "C02.payout", o.Idx, "end of block at %s: custody paid %s%s to %s, matured entries of the reference list sum to %s (strictly-later rule, unbonding period %s)", T.Format("15:04:05.000000000"), gv, k[1], w.Name(k[0]), wv, o.Pre.Unbonding)
			return
		}
		// the delegator's balance agrees with the event log
		if w.ActorIndex(k[0]) >= 0 && k[1] != BondDenom {
			d := o.PostEnd.Bal[k[0]].AmountOf(k[1]).Sub(o.Pre.Bal[k[0]].AmountOf(k[1]))
			if !d.Equal(gv) {
				rep.Violate("C02", "C02.payout-balance", o.Idx, "delegator %s balance of %s moved by %s at end of block, payouts in the event log %s", w.Name(k[0]), k[1], d, gv)
				return
			}
		}
	}
	// afterwards: the real queue equals the reference list (nothing left behind, nothing paid twice later)
	rep.Eval("C02.queue-after")
	if !equalStringMultiset(o.PostEnd.UnbKeys(), o.shUnbAfterEnd) {
		rep.Violate("C02", "C02.queue-after", o.Idx, "after end of block the pending queue differs from the reference list: only real %v, only reference %v", diffMultiset(o.PostEnd.UnbKeys(), o.shUnbAfterEnd), diffMultiset(o.shUnbAfterEnd, o.PostEnd.UnbKeys()))
		return
	}
	// per-validator lookup index: exactly the (validator, completion, denom, delegator) of pending entries
	rep.Eval("C02.index-after")
	wantIdx := map[string]bool{}
	for _, b := range o.PostEnd.Unb {
		for _, e := range b.Entries {
			wantIdx[fmt.Sprintf("%s|%d|%s|%s", e.Val, b.Completion.UnixNano(), e.Denom, b.Del)] = true
			if e.Del != b.Del {
				rep.Violate("C02", "C02.index-after", o.Idx, "queue bucket of %s contains an entry of %s", w.Name(b.Del), w.Name(e.Del))
				return
			}
		}
	}
	gotIdx := map[string]bool{}
	for _, ix := range o.PostEnd.UnbIndex {
		gotIdx[fmt.Sprintf("%s|%d|%s|%s", ix.Val, ix.Completion.UnixNano(), ix.Denom, ix.Del)] = true
	}
	for k := range wantIdx {
		if !gotIdx[k] {
			rep.Violate("C02", "C02.index-after", o.Idx, "pending entry %s has no per-validator index record", shortKey(k))
			return
		}
	}
	for k := range gotIdx {
		if !wantIdx[k] {
			rep.Violate("C02", "C02.index-after", o.Idx, "per-validator index record %s left behind without a pending entry", shortKey(k))
			return
		}
	}
	if o.tainted {
		return
	}
	// begin-block (slashes): pending entries change only as C07 specifies
	rep.Eval("C02.queue-after-slashes")
	if !equalStringMultiset(o.PostBeg.UnbKeys(), m.R.Sh.UnbKeys()) {
		rep.Violate("C02", "C02.queue-after-slashes", o.Idx, "after the slashes of this block the pending queue differs from the reference list: only real %v, only reference %v", diffMultiset(o.PostBeg.UnbKeys(), m.R.Sh.UnbKeys()), diffMultiset(m.R.Sh.UnbKeys(), o.PostBeg.UnbKeys()))
	}
}

// ================================================================================================
// shared: effects of one slash callback (C06 + C07)
// ================================================================================================

// pendingHits: still-pending reference redelegations out of val at time T.
func (r *Runner) pendingHits(s *SlashRecord) ([]RedelHit, bool) {
	var hits []RedelHit
	merged := false
	T := s.Pre.Time
	type mk struct {
		del, dst, den string
		t            int64
	}
	srcs := map[mk]map[string]bool{}
	for _, e := range r.Sh.Redel {
		k := mk{e.Del, e.Dst, e.Denom, e.Completion.UnixNano()}
		if srcs[k] == nil {
			srcs[k] = map[string]bool{}
		}
		srcs[k][e.Src] = true
	}
	for _, e := range r.Sh.Redel {
		if e.Src != s.Val || e.Completion.Before(T) {
			continue
		}
		hits = append(hits, RedelHit{Del: e.Del, Dst: e.Dst, Denom: e.Denom, Amount: e.Amount, ID: e.ID, Completion: e.Completion.UnixNano()})
		if len(srcs[mk{e.Del, e.Dst, e.Denom, e.Completion.UnixNano()}]) > 1 {
			merged = true
		}
	}
	return hits, merged
}

// mergedHits: what the documented defective mechanism (record key without source) slashes: for each
// index entry of the slashed source, the whole merged record balance.
func (r *Runner) mergedHits(s *SlashRecord) []RedelHit {
	var hits []RedelHit
	T := s.Pre.Time
	seen := map[string]bool{}
	for _, ix := range s.Pre.RedelIndex {
		if ix.Src != s.Val || ix.Completion.Before(T) {
			continue
		}
		k := fmt.Sprintf("%s|%s|%s|%d", ix.Del, ix.Dst, ix.Denom, ix.Completion.UnixNano())
		if seen[k] {
			continue
		}
		seen[k] = true
		for _, rec := range s.Pre.Redels {
			if rec.Del == ix.Del && rec.Dst == ix.Dst && rec.Denom == ix.Denom && rec.Completion.Equal(ix.Completion) {
				hits = append(hits, RedelHit{Del: rec.Del, Dst: rec.Dst, Denom: rec.Denom, Amount: rec.Amount, Completion: rec.Completion.UnixNano()})
			}
		}
	}
	return hits
}

type slashVerdict struct {
	unbMsg    string // pending unbondings (C07)
	feeMsg    string // fee collector delta (C07)
	modelMsg  string // positions / totals (C06, C07 redelegation part)
	custody   string
	merged    bool
	mergedOK  bool
	positions int
	reduced   int
	hits      int
}

func (r *Runner) judgeSlash(s *SlashRecord) *slashVerdict {
	v := &slashVerdict{}
	w := r.W
	T := s.Pre.Time
	f := ratDec(s.Fraction)
	// --- pending unbondings: exact, single, scoped
	var want []string
	cuts := map[string]math.Int{}
	for _, b := range s.Pre.Unb {
		for _, e := range b.Entries {
			amt := e.Amount
			if e.Val == s.Val && !b.Completion.Before(T) {
				cut := math.NewIntFromBigInt(ratFloor(new(big.Rat).Mul(f, ratInt(e.Amount))))
				amt = amt.Sub(cut)
				v.reduced++
				if cur, ok := cuts[e.Denom]; ok {
					cuts[e.Denom] = cur.Add(cut)
				} else {
					cuts[e.Denom] = cut
				}
			}
			want = append(want, ShadowUnb{Del: e.Del, Val: e.Val, Denom: e.Denom, Amount: amt, Completion: b.Completion}.Key())
		}
	}
	got := s.Post.UnbKeys()
	if !equalStringMultiset(want, got) {
		v.unbMsg = fmt.Sprintf("pending unbondings after slashing %s by %s: only real %v, only specified %v", w.Name(s.Val), s.Fraction, diffMultiset(got, want), diffMultiset(want, got))
	}
	// --- fee collector receives exactly the reductions; custody loses exactly that
	denoms := map[string]bool{}
	for d := range cuts {
		denoms[d] = true
	}
	for d := range s.Pre.Assets {
		denoms[d] = true
	}
	for _, d := range sortedKeys(denoms) {
		cut, ok := cuts[d]
		if !ok {
			cut = math.ZeroInt()
		}
		fcD := s.Post.BalOf(w.FcAddr, d).Sub(s.Pre.BalOf(w.FcAddr, d))
		if !fcD.Equal(cut) {
			v.feeMsg = fmt.Sprintf("fee collector received %s%s from the slash, the specified reductions sum to %s", fcD, d, cut)
		}
		// custody: minus the forwarded cut; reward withdrawals are forwarded to the pool in the same step
		modD := s.Pre.BalOf(w.ModAddr, d).Sub(s.Post.BalOf(w.ModAddr, d))
		stranded := math.ZeroInt()
		in, out := math.ZeroInt(), math.ZeroInt()
		for _, wd := range s.Ev.Withdraws {
			if wd.Delegator == w.ModAddr.String() {
				in = in.Add(wd.Coins.AmountOf(d))
			}
		}
		for _, t := range s.Ev.Transfers {
			if t.From == w.ModAddr.String() && t.To == w.PoolAddr.String() {
				out = out.Add(t.Coins.AmountOf(d))
			}
		}
		if in.GT(out) {
			stranded = in.Sub(out)
		}
		if !modD.Add(stranded).Equal(cut) && d != BondDenom {
			v.custody = fmt.Sprintf("custody of %s moved by -%s during the slash, specified -%s", d, modD, cut)
		}
	}
	// --- positions and totals vs the specified slash
	hits, merged := r.pendingHits(s)
	v.hits = len(hits)
	v.merged = merged
	v.modelMsg, v.positions = SlashModelCheck(w, s.Pre, s.Post, s.Val, s.Fraction, hits)
	if v.modelMsg != "" && merged {
		// does the documented defect (merged record, key without source) explain the observation exactly?
		msg, _ := SlashModelCheck(w, s.Pre, s.Post, s.Val, s.Fraction, r.mergedHits(s))
		v.mergedOK = msg == ""
	}
	return v
}

func slashClass(r *Runner, s *SlashRecord, v *slashVerdict) string {
	rel := map[string]bool{}
	mixedVal, mixedDen := false, false
	T := s.Pre.Time
	for _, b := range s.Pre.Unb {
		hasV := false
		vals, dens := map[string]bool{}, map[string]bool{}
		for _, e := range b.Entries {
			vals[e.Val] = true
			dens[e.Denom] = true
			if e.Val == s.Val {
				hasV = true
			}
		}
		if !hasV {
			continue
		}
		if len(vals) > 1 {
			mixedVal = true
		}
		if len(dens) > 1 {
			mixedDen = true
		}
		switch {
		case b.Completion.Before(T):
			rel["<"] = true
		case b.Completion.Equal(T):
			rel["="] = true
		default:
			rel[">"] = true
		}
	}
	return fmt.Sprintf("slash/%s/unb%d/mixedVal%v/mixedDen%v/rel%s/redel%d/real%v", fracClass(s.Fraction), min(v.reduced, 3), mixedVal, mixedDen, strings.Join(sortedKeys(rel), ""), min(v.hits, 3), s.Real)
}

// ================================================================================================
// C07
// ================================================================================================

type MonC07 struct {
	BaseMon
	probeFracs []string
}

func NewMonC07(r *Runner) *MonC07 {
	return &MonC07{BaseMon{r}, []string{"0.000000000000000001", "0.05", "0.5", "1"}}
}
func (m *MonC07) Name() string { return "C07" }

func (m *MonC07) judge(s *SlashRecord) {
	rep := m.R.Rep
	if s.Err != "" || s.Panic != "" {
		rep.Count("C07.skipped-failed-callback", 1)
		return
	}
	v := m.R.judgeSlash(s)
	rep.Class("C07." + slashClass(m.R, s, v))
	if v.reduced > 0 {
		rep.Sample(map[string]any{"observed": "slash callback", "validator": m.R.W.Name(s.Val), "fraction": s.Fraction.String(), "real": s.Real, "entries_reduced": v.reduced, "pending_redelegations_out": v.hits, "unbondings_before": shortKeys(s.Pre.UnbKeys()), "unbondings_after": shortKeys(s.Post.UnbKeys())})
	}
	rep.Eval("C07.unbond.exact-scoped")
	if v.unbMsg != "" {
		rep.Violate("C07", "C07.unbond.exact-scoped", s.Idx, "%s", v.unbMsg)
		return
	}
	rep.Eval("C07.unbond.fee-collector")
	if v.feeMsg != "" {
		rep.Violate("C07", "C07.unbond.fee-collector", s.Idx, "%s", v.feeMsg)
		return
	}
	rep.Eval("C07.redelegation.destination")
	if v.modelMsg != "" {
		if v.merged && v.mergedOK {
			rep.KnownFinding("C07", "redelegation-merge", "redelegations of one delegator from two sources into the same destination in one block share one record (key has no source): slashing %s removes f x the merged balance at the destination", m.R.W.Name(s.Val))
			rep.Class("C07.known.redelegation-merge")
			return
		}
		rep.Violate("C07", "C07.redelegation.destination", s.Idx, "slash of %s by %s: %s", m.R.W.Name(s.Val), s.Fraction, v.modelMsg)
	}
}

func (m *MonC07) AfterSlash(s *SlashRecord) { m.judge(s) }

func (m *MonC07) Probe(idx int) {
	// slash every validator by several fractions on branches of the current state
	for i := 1; i < len(m.R.W.Vals) && !m.R.Halt; i++ {
		fr := m.probeFracs[(idx+i)%len(m.probeFracs)]
		if !m.R.valExists(i) {
			continue // x/staking only slashes validators it knows
		}
		rec := m.R.SlashOn(m.R.W.Ctx, m.R.W.Vals[i].Oper, math.LegacyMustNewDecFromStr(fr), false)
		m.judge(rec)
	}
}

// ================================================================================================
// C06
// ================================================================================================

type MonC06 struct {
	BaseMon
	probeFracs []string
}

func NewMonC06(r *Runner) *MonC06 {
	return &MonC06{BaseMon{r}, []string{"0.0001", "0.01", "0.05", "0.5", "1", "0.37"}}
}
func (m *MonC06) Name() string { return "C06" }

func (m *MonC06) judge(s *SlashRecord) {
	rep := m.R.Rep
	failed := ""
	if s.Err != "" || s.Panic != "" {
		hits, _ := m.R.pendingHits(s)
		if strings.Contains(s.Err, "insufficient funds") && strings.Contains(s.Err, "spendable balance") && len(hits) > 0 {
			// the recorded pool-short cause (C08/C12): the callback cannot pay a redelegation destination's rewards
			rep.Count("C06.skipped-failed-callback", 1)
			return
		}
		// x/staking only logs the callback's error and slashes the validator anyway: whatever the failed
		// callback left behind is the outcome of this slash and is judged like any other
		failed = fmt.Sprintf(" [the slash callback failed: %s%s]", s.Err, s.Panic)
		rep.Class("C06.failed-callback-judged")
	}
	w := m.R.W
	hits, merged := m.R.pendingHits(s)
	nOn, nOther, nAssets := 0, 0, map[string]bool{}
	for _, pk := range s.Pre.DelOrder {
		if pk.Val == s.Val {
			nOn++
			nAssets[pk.Denom] = true
		} else {
			nOther++
		}
	}
	rep.Class(fmt.Sprintf("C06.slash/%s/on%d/other%d/assets%d/redel%d/real%v", fracClass(s.Fraction), min(nOn, 3), min(nOther, 3), min(len(nAssets), 3), min(len(hits), 3), s.Real))
	// staked totals and custody untouched by the bonded part
	rep.Eval("C06.totals-untouched")
	for _, d := range s.Pre.AssetOrder {
		if !s.Pre.Assets[d].TotalTokens.Equal(s.Post.Assets[d].TotalTokens) {
			rep.Violate("C06", "C06.totals-untouched", s.Idx, "slash of %s changed the staked total of %s: %s -> %s", w.Name(s.Val), d, s.Pre.Assets[d].TotalTokens, s.Post.Assets[d].TotalTokens)
			return
		}
	}
	// sole holder at f=1: no factor g exists (domain note in DESIGN.md) -> proportionality not applicable
	f := ratDec(s.Fraction)
	for _, d := range s.Pre.AssetOrder {
		if f.Cmp(ratI64(1)) >= 0 {
			onV := s.Pre.ValTokens(s.Val, d)
			if onV.Sign() > 0 && onV.Cmp(ratInt(s.Pre.Assets[d].TotalTokens)) == 0 {
				rep.Count("C06.domain.sole-holder-f1", 1)
				return
			}
		}
	}
	rep.Eval("C06.proportional")
	msg, n := SlashModelCheck(w, s.Pre, s.Post, s.Val, s.Fraction, hits)
	rep.Count("C06.positions-compared", n)
	if msg != "" {
		if merged {
			if m2, _ := SlashModelCheck(w, s.Pre, s.Post, s.Val, s.Fraction, m.R.mergedHits(s)); m2 == "" {
				rep.KnownFinding("C06", "redelegation-merge", "slash of %s: the destination of a merged redelegation record (two sources, one record) loses f x the merged balance; other positions there gain accordingly", w.Name(s.Val))
				rep.Class("C06.known.redelegation-merge")
				return
			}
		}
		rep.Violate("C06", "C06.proportional", s.Idx, "slash of %s by %s: %s%s", w.Name(s.Val), s.Fraction, msg, failed)
		return
	}
	// derived, reported separately for diagnosis: nobody outside the slashed validator (and outside
	// redelegation destinations) loses value
	dst := map[[2]string]bool{}
	for _, h := range hits {
		dst[[2]string{h.Dst, h.Denom}] = true
	}
	rep.Eval("C06.third-party-no-loss")
	for _, pk := range s.Pre.DelOrder {
		if pk.Val == s.Val || dst[[2]string{pk.Val, pk.Denom}] {
			continue
		}
		before, after := s.Pre.Value(pk), s.Post.Value(pk)
		b := budget(ratInt(s.Pre.Assets[pk.Denom].TotalTokens), 2, 20)
		if new(big.Rat).Sub(before, after).Cmp(b) > 0 {
			rep.Violate("C06", "C06.third-party-no-loss", s.Idx, "position (%s,%s,%s) on another validator lost value in the slash of %s: %s -> %s", w.Name(pk.Del), w.Name(pk.Val), pk.Denom, w.Name(s.Val), ratStr(before), ratStr(after))
			return
		}
	}
}

func (m *MonC06) AfterSlash(s *SlashRecord) { m.judge(s) }

func (m *MonC06) Probe(idx int) {
	for i := 1; i < len(m.R.W.Vals) && !m.R.Halt; i++ {
		fr := m.probeFracs[(idx+i)%len(m.probeFracs)]
		if !m.R.valExists(i) {
			continue // x/staking only slashes validators it knows
		}
		rec := m.R.SlashOn(m.R.W.Ctx, m.R.W.Vals[i].Oper, math.LegacyMustNewDecFromStr(fr), false)
		m.judge(rec)
	}
}

// ================================================================================================
// C08
// ================================================================================================

type MonC08 struct {
	BaseMon
	fracs []string
}

func NewMonC08(r *Runner) *MonC08 {
	return &MonC08{BaseMon{r}, []string{"0.000000000000000001", "0.01", "0.5", "1"}}
}
func (m *MonC08) Name() string { return "C08" }

func (m *MonC08) judge(s *SlashRecord) {
	rep := m.R.Rep
	w := m.R.W
	// situation: state of the destinations of pending redelegations out of the slashed validator
	hits, _ := m.R.pendingHits(s)
	dstState := "none"
	for _, h := range hits {
		pk := PosKey{h.Del, h.Dst, h.Denom}
		val := s.Pre.Value(pk)
		_, exists := s.Pre.Dels[pk]
		st := "intact"
		switch {
		case !exists:
			st = "gone"
			if dv := s.Pre.Vals[h.Dst]; dv == nil || !dv.Exists {
				rep.Class("C08.destination-validator-removed") // and its validator was removed by x/staking since
			}
		case val.Cmp(ratInt(h.Amount)) < 0:
			st = "shrunk"
		}
		if dstState == "none" || st == "gone" || (st == "shrunk" && dstState == "intact") {
			dstState = st
		}
	}
	hasStake := false
	if v := s.Pre.Vals[s.Val]; v != nil && v.HasInfo && len(v.Info.ValidatorShares) > 0 {
		hasStake = true
	}
	rep.Class(fmt.Sprintf("C08.slash/%s/dst-%s/stake%v/unb%v/real%v", fracClass(s.Fraction), dstState, hasStake, len(s.Pre.Unb) > 0, s.Real))
	rep.Eval("C08.returns")
	if s.Err != "" || s.Panic != "" {
		if strings.Contains(s.Err, "insufficient funds") && strings.Contains(s.Err, "spendable balance") && len(hits) > 0 {
			rep.KnownFinding("C08", "pool-short", "slash callback fails with %q while claiming rewards for a redelegation destination: the rewards pool is short (consequence of the recorded C12 findings)", s.Err+s.Panic)
			if !s.Real && !s.toppedUp {
				// look past the recorded finding: the same callback on a branch whose pool can pay
				va, _ := sdk.ValAddressFromBech32(s.Val)
				rec2 := m.R.slashOn(m.R.W.Ctx, va, s.Fraction, false, true)
				rec2.toppedUp = true
				rep.Class("C08.retried-with-solvent-pool")
				m.judge(rec2)
			}
			return
		}
		rep.Violate("C08", "C08.returns", s.Idx, "slash callback for %s fraction %s failed: %s%s [%s]", w.Name(s.Val), s.Fraction, s.Err, s.Panic, s.Stack)
		return
	}
	rep.Eval("C08.reschedules")
	if !s.Post.Flag {
		rep.Violate("C08", "C08.reschedules", s.Idx, "slash callback for %s returned without scheduling a voting-power rebalance", w.Name(s.Val))
		return
	}
	rep.Eval("C08.complete")
	v := m.R.judgeSlash(s)
	for _, msg := range []string{v.unbMsg, v.feeMsg} {
		if msg != "" {
			rep.Violate("C08", "C08.complete", s.Idx, "slash effects incomplete: %s", msg)
			return
		}
	}
	if v.modelMsg != "" && !(v.merged && v.mergedOK) {
		rep.Violate("C08", "C08.complete", s.Idx, "slash effects incomplete: %s", v.modelMsg)
	}
}

func (m *MonC08) AfterSlash(s *SlashRecord) { m.judge(s) }

func (m *MonC08) Probe(idx int) {
	for i := 0; i < len(m.R.W.Vals) && !m.R.Halt; i++ {
		for j, fr := range m.fracs {
			if (idx+i+j)%2 == 1 && m.R.ProbeEvery == 1 {
				continue // alternate fractions between steps to bound the cost
			}
			if !m.R.valExists(i) {
				continue // x/staking only slashes validators it knows
			}
			rec := m.R.SlashOn(m.R.W.Ctx, m.R.W.Vals[i].Oper, math.LegacyMustNewDecFromStr(fr), false)
			m.judge(rec)
			if m.R.Halt {
				return
			}
		}
	}
}

// poolShortKnown: is the rewards pool unable to pay all claims right now (C12's recorded findings)?
func (r *Runner) poolShortKnown(s *Snap) bool { return r.PoolShort }

// ================================================================================================
// C15 redelegation
// ================================================================================================

type MonC15 struct {
	BaseMon
}

func NewMonC15(r *Runner) *MonC15 { return &MonC15{BaseMon{r}} }
func (m *MonC15) Name() string    { return "C15" }

const transitiveErr = "redelegation to this validator already in progress"

func (m *MonC15) AfterTx(o *TxOutcome) {
	rep := m.R.Rep
	w := m.R.W
	if o.Step.K != "redelegate" {
		if o.Res.OK {
			m.records("tx "+o.Step.K, o.Idx, o.Post)
		}
		return
	}
	src := PosKey{o.Actor, o.Val, o.Step.Den}
	dst := PosKey{o.Actor, o.Dst, o.Step.Den}
	if !o.Res.OK {
		// a refusal for the onward-hop reason must correspond to a pending inbound entry
		if strings.Contains(o.Res.Err, transitiveErr) {
			rep.Eval("C15.restriction.justified")
			rep.Class("C15.refused-transitive")
			if !m.inbound(o.Actor, o.Val, o.Step.Den) {
				rep.Violate("C15", "C15.restriction.justified", o.Idx, "redelegation out of %s refused as transitive but no entry into it is pending for this delegator and asset", w.Name(o.Val))
			}
		}
		return
	}
	a := o.Pre.Assets[o.Step.Den]
	tt := ratInt(a.TotalTokens)
	// same budget as C04: one unit plus ~a dozen 18-digit operations scaled by the share price, plus the
	// module's 0.01-share tolerance
	price := sharePrice(o.Pre, o.Val, o.Step.Den)
	if p2 := sharePrice(o.Pre, o.Dst, o.Step.Den); p2.Cmp(price) > 0 {
		price = p2
	}
	if p2 := sharePrice(o.Post, o.Dst, o.Step.Den); p2.Cmp(price) > 0 {
		price = p2
	}
	b := budget(new(big.Rat).Mul(tt, price), 1, 24)
	b.Add(b, new(big.Rat).Mul(big.NewRat(1, 50), price))
	amt := ratInt(o.Amount)
	_, dstExisted := o.Pre.Dels[dst]
	full := o.Pre.Reported(src).Cmp(o.Amount.BigInt()) == 0
	rep.Class(fmt.Sprintf("C15.redelegate/dstExisted%v/full%v/chain%v", dstExisted, full, m.inbound(o.Actor, o.Val, o.Step.Den)))
	rep.Eval("C15.moves-value")
	dS := new(big.Rat).Sub(o.Pre.Value(src), o.Post.Value(src))
	dD := new(big.Rat).Sub(o.Post.Value(dst), o.Pre.Value(dst))
	if ratAbs(new(big.Rat).Sub(dS, amt)).Cmp(b) > 0 || ratAbs(new(big.Rat).Sub(dD, amt)).Cmp(b) > 0 {
		if cause, ok := subshareReset(o.Pre, o.Post, o.Step.Den, src, dst, amt, b); ok {
			rep.KnownFinding("C15", "dust-capture", "%s", cause)
			rep.Class("C15.known.dust-capture")
			m.records("tx redelegate", o.Idx, o.Post)
			return
		}
		// recorded finding orphaned-total (C04): a complete slash left the asset with a staked total but no validator
		// shares; every token conversion then returns the whole total, so both positions are reported as worth it
		if a.TotalValidatorShares.IsZero() && a.TotalTokens.IsPositive() {
			rep.KnownFinding("C15", "orphaned-total", "redelegate of %s%s while the asset has a staked total of %s but no validator shares (after a complete slash of its only holder): positions are valued at the whole orphaned total (source -%s, destination +%s)", o.Amount, o.Step.Den, a.TotalTokens, ratStr(dS), ratStr(dD))
			rep.Class("C15.known.orphaned-total")
			m.records("tx redelegate", o.Idx, o.Post)
			return
		}
		// recorded finding subshare-rule: below one delegator share on the source (validator, asset) the amount is
		// converted to shares 1:1, so the source loses more value than arrives (the rest stays as orphan shares)
		if pv := o.Pre.Vals[o.Val]; pv != nil && pv.HasInfo {
			S := decAmount(pv.Info.TotalDelegatorShares, o.Step.Den)
			lo, hi := new(big.Rat).Sub(amt, b), new(big.Rat).Add(o.Pre.Value(src), b)
			if S.IsPositive() && S.TruncateInt().IsZero() && ratAbs(new(big.Rat).Sub(dD, amt)).Cmp(b) <= 0 && dS.Cmp(lo) >= 0 && dS.Cmp(hi) <= 0 {
				rep.KnownFinding("C15", "subshare-rule", "redelegate of %s%s from %s whose delegator-share total is %s (< 1): tokens are converted to shares 1:1, the source position lost %s while %s arrived at the destination", o.Amount, o.Step.Den, w.Name(o.Val), S, ratStr(dS), ratStr(dD))
				rep.Class("C15.known.subshare-rule")
				m.records("tx redelegate", o.Idx, o.Post)
				return
			}
		}
		rep.Violate("C15", "C15.moves-value", o.Idx, "redelegate %s%s: source position changed by -%s, destination by +%s (budget %s)", o.Amount, o.Step.Den, ratStr(dS), ratStr(dD), ratStr(b))
		return
	}
	rep.Eval("C15.pays-nothing")
	if !o.Pre.Assets[o.Step.Den].TotalTokens.Equal(o.Post.Assets[o.Step.Den].TotalTokens) {
		rep.Violate("C15", "C15.pays-nothing", o.Idx, "redelegate changed the staked total of %s", o.Step.Den)
		return
	}
	dBal := o.Post.Bal[o.Actor].AmountOf(o.Step.Den).Sub(o.Pre.Bal[o.Actor].AmountOf(o.Step.Den))
	fromPool := math.ZeroInt()
	for _, t := range o.Ev.Transfers {
		if t.To == o.Actor && t.From == w.PoolAddr.String() {
			fromPool = fromPool.Add(t.Coins.AmountOf(o.Step.Den))
		}
		if t.From == w.ModAddr.String() && t.To != w.PoolAddr.String() && t.Coins.AmountOf(o.Step.Den).IsPositive() {
			rep.Violate("C15", "C15.pays-nothing", o.Idx, "redelegate moved %s out of custody to %s", t.Coins, w.Name(t.To))
			return
		}
	}
	if !dBal.Equal(fromPool) {
		rep.Violate("C15", "C15.pays-nothing", o.Idx, "redelegate changed the delegator's %s balance by %s (reward payouts explain %s)", o.Step.Den, dBal, fromPool)
		return
	}
	// custody unchanged (reward withdrawals are forwarded in the same step; stranded ones are C01's finding)
	in, out := math.ZeroInt(), math.ZeroInt()
	for _, wd := range o.Ev.Withdraws {
		if wd.Delegator == w.ModAddr.String() {
			in = in.Add(wd.Coins.AmountOf(o.Step.Den))
		}
	}
	for _, t := range o.Ev.Transfers {
		if t.From == w.ModAddr.String() && t.To == w.PoolAddr.String() {
			out = out.Add(t.Coins.AmountOf(o.Step.Den))
		}
	}
	dMod := o.Post.BalOf(w.ModAddr, o.Step.Den).Sub(o.Pre.BalOf(w.ModAddr, o.Step.Den))
	if !dMod.Equal(in.Sub(out)) {
		rep.Violate("C15", "C15.pays-nothing", o.Idx, "redelegate changed custody of %s by %s", o.Step.Den, dMod)
		return
	}
	// pending entry recorded for the staking unbonding period
	rep.Eval("C15.entry-recorded")
	want := o.Pre.Time.Add(o.Pre.Unbonding)
	found := false
	for _, r := range o.Post.Redels {
		if r.Del == o.Actor && r.Dst == o.Dst && r.Denom == o.Step.Den && r.Completion.Equal(want) {
			found = true
		}
	}
	if !found {
		rep.Violate("C15", "C15.entry-recorded", o.Idx, "no pending redelegation record (delegator, %s, ->%s) completing at block time + unbonding period %s", o.Step.Den, w.Name(o.Dst), want)
		return
	}
	m.records("tx redelegate", o.Idx, o.Post)
}

func (m *MonC15) inbound(del, val, denom string) bool {
	for _, e := range m.R.Sh.Redel {
		if e.Del == del && e.Dst == val && e.Denom == denom {
			return true
		}
	}
	return false
}

// records: raw records (0x22), source index (0x31) and time queue (0x23) correspond exactly to the
// reference entries that are still pending.
func (m *MonC15) records(where string, idx int, s *Snap) {
	rep := m.R.Rep
	rep.Eval("C15.stores")
	// records: one per (del, denom, dst, completion) with balance = sum of the entries
	type rk struct {
		del, den, dst string
		t            int64
	}
	wantRec := map[rk]math.Int{}
	wantIdx := map[string]bool{}
	var wantQ []string
	for _, e := range m.R.Sh.Redel {
		k := rk{e.Del, e.Denom, e.Dst, e.Completion.UnixNano()}
		if cur, ok := wantRec[k]; ok {
			wantRec[k] = cur.Add(e.Amount)
		} else {
			wantRec[k] = e.Amount
		}
		wantIdx[fmt.Sprintf("%s|%d|%s|%s|%s", e.Src, e.Completion.UnixNano(), e.Denom, e.Dst, e.Del)] = true
		wantQ = append(wantQ, fmt.Sprintf("%s|%s|%s|%s|%s|%d", e.Del, e.Src, e.Dst, e.Denom, e.Amount, e.Completion.UnixNano()))
	}
	if len(s.Redels) != len(wantRec) {
		rep.Violate("C15", "C15.stores", idx, "%s: %d pending redelegation records, reference list implies %d", where, len(s.Redels), len(wantRec))
		return
	}
	for _, r := range s.Redels {
		k := rk{r.Del, r.Denom, r.Dst, r.Completion.UnixNano()}
		wv, ok := wantRec[k]
		if !ok || !wv.Equal(r.Amount) {
			rep.Violate("C15", "C15.stores", idx, "%s: redelegation record (%s,%s,->%s,%s) balance %s, reference %v", where, m.R.W.Name(r.Del), r.Denom, m.R.W.Name(r.Dst), r.Completion.Format("15:04:05.000000000"), r.Amount, wv)
			return
		}
	}
	gotIdx := map[string]bool{}
	for _, ix := range s.RedelIndex {
		gotIdx[fmt.Sprintf("%s|%d|%s|%s|%s", ix.Src, ix.Completion.UnixNano(), ix.Denom, ix.Dst, ix.Del)] = true
	}
	for k := range wantIdx {
		if !gotIdx[k] {
			rep.Violate("C15", "C15.stores", idx, "%s: pending redelegation %s has no source-validator index record", where, shortKey(k))
			return
		}
	}
	for k := range gotIdx {
		if !wantIdx[k] {
			rep.Violate("C15", "C15.stores", idx, "%s: source-validator index record %s left behind", where, shortKey(k))
			return
		}
	}
	var gotQ []string
	for _, e := range s.RedelQueue {
		gotQ = append(gotQ, fmt.Sprintf("%s|%s|%s|%s|%s|%d", e.Del, e.Src, e.Dst, e.Denom, e.Amount, e.Completion.UnixNano()))
	}
	if !equalStringMultiset(gotQ, wantQ) {
		rep.Violate("C15", "C15.stores", idx, "%s: redelegation time queue differs from the reference list: only real %v, only reference %v", where, diffMultiset(gotQ, wantQ), diffMultiset(wantQ, gotQ))
	}
}

func (m *MonC15) AfterBlock(o *BlockOutcome) {
	if o.EndRes.Failed() {
		return
	}
	rep := m.R.Rep
	T := o.Pre.Time
	for _, e := range o.MaturedR {
		if T.Sub(e.Completion) == 1 {
			rep.Class("C15.boundary/completion=blocktime-1ns-cleaned")
		} else {
			rep.Class("C15.matured")
		}
	}
	for _, e := range m.R.Sh.Redel {
		if e.Completion.Equal(T) {
			rep.Class("C15.boundary/completion=blocktime-kept")
		}
	}
	m.records("end-block", o.Idx, o.PostEnd)
	if !m.R.Halt {
		m.records("begin-block", o.Idx, o.PostBeg)
	}
}

// Probe: the onward-hop restriction holds exactly while an inbound entry is pending.
func (m *MonC15) Probe(idx int) {
	rep := m.R.Rep
	w := m.R.W
	s := m.R.Cur
	for _, pk := range s.DelOrder {
		if m.R.Halt {
			return
		}
		if s.Reported(pk).Sign() <= 0 {
			continue
		}
		ai := w.ActorIndex(pk.Del)
		vi := w.ValIndex(pk.Val)
		if ai < 0 || vi < 0 {
			continue
		}
		// pick a destination different from the source
		di := (vi + 1 + idx%max(1, len(w.Vals)-1)) % len(w.Vals)
		if di == vi {
			di = (vi + 1) % len(w.Vals)
		}
		step := Step{K: "redelegate", A: ai, V: vi, W: di, Den: pk.Denom, Amt: "1"}
		res := w.RunMsgOn(w.Ctx, m.R.buildMsg(step), false)
		pending := m.inbound(pk.Del, pk.Val, pk.Denom)
		refused := !res.OK && strings.Contains(res.Err, transitiveErr)
		if pending {
			rep.Eval("C15.restriction.holds")
			rep.Class("C15.probe/pending-inbound")
			if res.OK {
				rep.Violate("C15", "C15.restriction.holds", idx, "delegator %s has a pending redelegation into %s but could redelegate %s out of it", w.Name(pk.Del), w.Name(pk.Val), pk.Denom)
				return
			}
			if !refused {
				// failed for another reason before reaching the restriction (e.g. rewards pool short): not decided here
				rep.Count("C15.probe.other-failure", 1)
			}
		} else {
			rep.Eval("C15.restriction.lifted")
			rep.Class("C15.probe/no-inbound")
			if refused {
				rep.Violate("C15", "C15.restriction.lifted", idx, "delegator %s has no pending redelegation into %s but is refused a redelegation out of it as transitive", w.Name(pk.Del), w.Name(pk.Val))
				return
			}
		}
	}
}

var _ = sdk.NewCoin

// subshareReset: the documented mechanism of the recorded finding "dust-capture": when the
// delegator-share total of (validator, asset) is positive but below one share, new stake is issued
// shares 1:1 with tokens, so the newcomer captures (part of) the value the sub-share dust was worth.
// The deviation must be bounded by that dust value, and only positions on that validator may deviate.
func subshareReset(pre, post *Snap, denom string, src, dst PosKey, amt *big.Rat, b *big.Rat) (string, bool) {
	for _, pk := range []PosKey{src, dst} {
		v := pre.Vals[pk.Val]
		if v == nil || !v.HasInfo {
			continue
		}
		S := decAmount(v.Info.TotalDelegatorShares, denom)
		if !S.TruncateInt().IsZero() {
			continue
		}
		dust := pre.ValTokens(pk.Val, denom)
		// destination: gained amount + at most the dust value
		gain := new(big.Rat).Sub(post.Value(pk), pre.Value(pk))
		excess := new(big.Rat).Sub(gain, amt)
		lim := new(big.Rat).Add(dust, b)
		if pk == dst && excess.Sign() >= 0 && excess.Cmp(lim) <= 0 {
			return fmt.Sprintf("new stake on a validator whose delegator-share total is below one share (%s shares) while it still carries validator shares worth %s tokens (dust left by earlier exits) is issued shares 1:1 and captures %s tokens of that dust", S, ratStr(dust), ratStr(excess)), true
		}
	}
	return "", false
}

func shortKeys(ks []string) []string {
	var out []string
	for i, k := range ks {
		if i >= 8 {
			break
		}
		out = append(out, shortKey(k))
	}
	return out
}

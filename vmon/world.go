package main

// world.go — the real alliance application driven like a chain (DESIGN.md section 3.1).
//
// One World owns one in-memory app instance. After genesis all work happens on CacheContext
// branches of the long-lived finalize context, so one process can run many histories.

import (
	errorsmod "cosmossdk.io/errors"
	"encoding/json"
	"fmt"
	"runtime/debug"
	"sort"
	"strings"
	"time"

	"cosmossdk.io/core/comet"
	"cosmossdk.io/log"
	"cosmossdk.io/math"
	abci "github.com/cometbft/cometbft/abci/types"
	cmted25519 "github.com/cometbft/cometbft/crypto/ed25519"
	cmtproto "github.com/cometbft/cometbft/proto/tendermint/types"
	tmtypes "github.com/cometbft/cometbft/types"
	dbm "github.com/cosmos/cosmos-db"
	codectypes "github.com/cosmos/cosmos-sdk/codec/types"
	"github.com/cosmos/cosmos-sdk/crypto/keys/ed25519"
	"github.com/cosmos/cosmos-sdk/crypto/keys/secp256k1"
	simtestutil "github.com/cosmos/cosmos-sdk/testutil/sims"
	sdk "github.com/cosmos/cosmos-sdk/types"
	authtypes "github.com/cosmos/cosmos-sdk/x/auth/types"
	banktypes "github.com/cosmos/cosmos-sdk/x/bank/types"
	distrtypes "github.com/cosmos/cosmos-sdk/x/distribution/types"
	govtypes "github.com/cosmos/cosmos-sdk/x/gov/types"
	minttypes "github.com/cosmos/cosmos-sdk/x/mint/types"
	slashingtypes "github.com/cosmos/cosmos-sdk/x/slashing/types"
	stakingtypes "github.com/cosmos/cosmos-sdk/x/staking/types"

	aapp "github.com/terra-money/alliance/app"
	"github.com/terra-money/alliance/x/alliance/types"
)

const BondDenom = "stake"

var T0 = time.Date(2024, 1, 1, 0, 0, 0, 0, time.UTC)

type ValInfo struct {
	Oper sdk.ValAddress
	Cons sdk.ConsAddress
	Acc  sdk.AccAddress
	Name string
}

type World struct {
	App  *aapp.App
	base sdk.Context // state right after genesis + first block
	Ctx  sdk.Context // the current history's main line

	Vals   []ValInfo // index 0 = genesis validator (never faulted)
	Actors []sdk.AccAddress

	ModAddr, PoolAddr, FcAddr, BondedAddr, NotBondedAddr, DistrAddr, GovAddr, MintAddr sdk.AccAddress

	// world ledger (things the world itself did, known to the monitors)
	Minted  sdk.Coins            // every coin the world minted (fees, funding)
	Donated map[string]math.Int  // unsolicited transfers to the alliance module account, per denom
	absent  map[int]int          // validator index -> remaining absent blocks
	pendEv  []abci.Misbehavior   // evidence to deliver in the next BeginBlock
	pendFee sdk.Coins            // fees for next block
	Height0 int64
	inBlock bool

	SlashObs func(ctx sdk.Context, val sdk.ValAddress, fraction math.LegacyDec) // installed by monitors
}

// ---- comet.BlockInfo implementation -------------------------------------------------------------

type ci struct {
	ev   []abci.Misbehavior
	lc   abci.CommitInfo
	prop []byte
}

func (c ci) GetEvidence() comet.EvidenceList { return evl(c.ev) }
func (c ci) GetValidatorsHash() []byte       { return nil }
func (c ci) GetProposerAddress() []byte      { return c.prop }
func (c ci) GetLastCommit() comet.CommitInfo { return cmi{c.lc} }

type evl []abci.Misbehavior

func (e evl) Len() int                 { return len(e) }
func (e evl) Get(i int) comet.Evidence { return evw{e[i]} }

type evw struct{ m abci.Misbehavior }

func (e evw) Type() comet.MisbehaviorType { return comet.MisbehaviorType(e.m.Type) }
func (e evw) Validator() comet.Validator  { return vw{e.m.Validator} }
func (e evw) Height() int64               { return e.m.Height }
func (e evw) Time() time.Time             { return e.m.Time }
func (e evw) TotalVotingPower() int64     { return e.m.TotalVotingPower }

type vw struct{ v abci.Validator }

func (v vw) Address() []byte { return v.v.Address }
func (v vw) Power() int64    { return v.v.Power }

type cmi struct{ c abci.CommitInfo }

func (c cmi) Round() int32           { return c.c.Round }
func (c cmi) Votes() comet.VoteInfos { return vis(c.c.Votes) }

type vis []abci.VoteInfo

func (v vis) Len() int                 { return len(v) }
func (v vis) Get(i int) comet.VoteInfo { return viw{v[i]} }

type viw struct{ v abci.VoteInfo }

func (v viw) Validator() comet.Validator        { return vw{v.v.Validator} }
func (v viw) GetBlockIDFlag() comet.BlockIDFlag { return comet.BlockIDFlag(v.v.BlockIdFlag) }

// ---- construction ------------------------------------------------------------------------------

func NewWorld() *World {
	db := dbm.NewMemDB()
	// invCheckPeriod 0: crisis never asserts on its own; monitors call AssertInvariants explicitly.
	app := aapp.New(log.NewNopLogger(), db, nil, true, map[int64]bool{}, aapp.DefaultNodeHome, 0, aapp.EmptyAppOptions{})
	gs := app.DefaultGenesis()

	gpk := cmted25519.GenPrivKeyFromSecret([]byte("vmon-genesis-validator")).PubKey()
	validator := tmtypes.NewValidator(gpk, 1)
	valSet := tmtypes.NewValidatorSet([]*tmtypes.Validator{validator})
	spk := secp256k1.GenPrivKeyFromSecret([]byte("vmon-genesis-account"))
	acc := authtypes.NewBaseAccount(spk.PubKey().Address().Bytes(), spk.PubKey(), 0, 0)
	bal := banktypes.Balance{Address: acc.GetAddress().String(), Coins: sdk.NewCoins(sdk.NewCoin(BondDenom, math.NewInt(100_000_000_000_000)))}
	gs, err := simtestutil.GenesisStateWithValSet(app.AppCodec(), gs, valSet, []authtypes.GenesisAccount{acc}, bal)
	must(err)
	var mg minttypes.GenesisState
	must(app.AppCodec().UnmarshalJSON(gs[minttypes.ModuleName], &mg))
	mg.Params.InflationMin = math.LegacyZeroDec()
	mg.Params.InflationMax = math.LegacyZeroDec()
	mg.Params.InflationRateChange = math.LegacyZeroDec()
	mg.Minter.Inflation = math.LegacyZeroDec()
	gs[minttypes.ModuleName] = app.AppCodec().MustMarshalJSON(&mg)
	stateBytes, err := json.Marshal(gs)
	must(err)
	_, err = app.InitChain(&abci.RequestInitChain{Validators: []abci.ValidatorUpdate{}, ConsensusParams: simtestutil.DefaultConsensusParams, AppStateBytes: stateBytes, Time: T0})
	must(err)
	_, err = app.FinalizeBlock(&abci.RequestFinalizeBlock{Height: app.LastBlockHeight() + 1, NextValidatorsHash: valSet.Hash(), Time: T0})
	must(err)

	w := &World{App: app}
	hdr := cmtproto.Header{Height: 2, Time: T0, ChainID: ""}
	w.base = app.BaseApp.NewContext(false).WithBlockHeader(hdr).WithChainID("")
	ak := app.AccountKeeper
	w.ModAddr = ak.GetModuleAddress(types.ModuleName)
	w.PoolAddr = ak.GetModuleAddress(types.RewardsPoolName)
	w.FcAddr = ak.GetModuleAddress(authtypes.FeeCollectorName)
	w.BondedAddr = ak.GetModuleAddress(stakingtypes.BondedPoolName)
	w.NotBondedAddr = ak.GetModuleAddress(stakingtypes.NotBondedPoolName)
	w.DistrAddr = ak.GetModuleAddress(distrtypes.ModuleName)
	w.GovAddr = ak.GetModuleAddress(govtypes.ModuleName)
	w.MintAddr = ak.GetModuleAddress(minttypes.ModuleName)

	gv, err := app.StakingKeeper.GetAllValidators(w.base)
	must(err)
	if len(gv) != 1 {
		panic("expected one genesis validator")
	}
	ca, _ := gv[0].GetConsAddr()
	op, _ := sdk.ValAddressFromBech32(gv[0].OperatorAddress)
	w.Vals = []ValInfo{{Oper: op, Cons: ca, Acc: sdk.AccAddress(op), Name: "G"}}
	// genesis-bonded validators have no signing info (test-genesis artefact)
	must(app.SlashingKeeper.SetValidatorSigningInfo(w.base, ca, slashingtypes.NewValidatorSigningInfo(ca, 0, 0, time.Unix(0, 0), false, 0)))
	return w
}

func must(err error) {
	if err != nil {
		panic(err)
	}
}

func actorAddr(i int) sdk.AccAddress {
	n := 20
	if i == 3 {
		n = 32 // one delegator has a 32-byte address (module, interchain and contract accounts have): key parsing must cope
	}
	b := make([]byte, n)
	copy(b, []byte(fmt.Sprintf("vmon-actor-%02d", i)))
	b[n-1] = byte(i + 1)
	return sdk.AccAddress(b)
}

func valOperAddr(i int) sdk.AccAddress {
	b := make([]byte, 20)
	copy(b, []byte(fmt.Sprintf("vmon-valop-%02d", i)))
	b[19] = byte(i + 1)
	return sdk.AccAddress(b)
}

// ---- history setup -----------------------------------------------------------------------------

type AssetSpec struct {
	Denom          string `json:"denom"`
	Weight         string `json:"w"`
	WMin           string `json:"wmin"`
	WMax           string `json:"wmax"`
	TakeRate       string `json:"take"`
	StartDelay     int64  `json:"start_delay_ns"` // RewardStartTime = T0 + delay (may be <0)
	ChangeRate     string `json:"rate,omitempty"`
	ChangeInterval int64  `json:"ivl_ns,omitempty"`
	Mag            string `json:"mag"` // typical amount magnitude for the generator
}

type Config struct {
	NVals          int         `json:"nvals"`   // created validators (in addition to the genesis one)
	NActors        int         `json:"nactors"` //
	Assets         []AssetSpec `json:"assets"`
	UnbondingNs    int64       `json:"unbonding_ns"`
	TakeIntervalNs int64       `json:"take_interval_ns"`
	RewardDelayNs  int64       `json:"reward_delay_ns"`
	SlashDouble    string      `json:"slash_double"`
	SlashDowntime  string      `json:"slash_downtime"`
	SignedWindow   int64       `json:"signed_window"`
	JailNs         int64       `json:"jail_ns"`
	CommunityTax   string      `json:"community_tax"`
	MaxValidators  uint32      `json:"max_validators"`
	ValStake       []int64     `json:"val_stake"` // self delegation of created validators
	ExtraDenoms    []string    `json:"extra_denoms"`
	Fund           string      `json:"fund"` // per actor per asset denom
}

// Reset starts a new history on a fresh branch of the post-genesis state.
func (w *World) Reset(cfg Config) {
	w.Ctx, _ = w.base.CacheContext()
	w.Ctx = w.Ctx.WithEventManager(sdk.NewEventManager())
	w.Vals = w.Vals[:1]
	w.Actors = nil
	w.Minted = sdk.NewCoins()
	w.Donated = map[string]math.Int{}
	w.absent = map[int]int{}
	w.pendEv = nil
	w.pendFee = nil
	app := w.App
	ctx := w.Ctx

	sp, err := app.StakingKeeper.GetParams(ctx)
	must(err)
	sp.UnbondingTime = time.Duration(cfg.UnbondingNs)
	if cfg.MaxValidators > 0 {
		sp.MaxValidators = cfg.MaxValidators
	}
	must(app.StakingKeeper.SetParams(ctx, sp))
	slp, err := app.SlashingKeeper.GetParams(ctx)
	must(err)
	slp.SlashFractionDoubleSign = math.LegacyMustNewDecFromStr(cfg.SlashDouble)
	slp.SlashFractionDowntime = math.LegacyMustNewDecFromStr(cfg.SlashDowntime)
	slp.SignedBlocksWindow = cfg.SignedWindow
	slp.MinSignedPerWindow = math.LegacyMustNewDecFromStr("0.5")
	slp.DowntimeJailDuration = time.Duration(cfg.JailNs)
	must(app.SlashingKeeper.SetParams(ctx, slp))
	dp, err := app.DistrKeeper.Params.Get(ctx)
	must(err)
	dp.CommunityTax = math.LegacyMustNewDecFromStr(cfg.CommunityTax)
	must(app.DistrKeeper.Params.Set(ctx, dp))

	// alliance genesis for this history (the module store is empty after default genesis)
	var assets []types.AllianceAsset
	for _, a := range cfg.Assets {
		as := types.NewAllianceAsset(a.Denom, math.LegacyMustNewDecFromStr(a.Weight), math.LegacyMustNewDecFromStr(a.WMin), math.LegacyMustNewDecFromStr(a.WMax), math.LegacyMustNewDecFromStr(a.TakeRate), T0.Add(time.Duration(a.StartDelay)))
		if a.ChangeRate != "" {
			as.RewardChangeRate = math.LegacyMustNewDecFromStr(a.ChangeRate)
			as.RewardChangeInterval = time.Duration(a.ChangeInterval)
		}
		assets = append(assets, as)
	}
	p := types.Params{RewardDelayTime: time.Duration(cfg.RewardDelayNs), TakeRateClaimInterval: time.Duration(cfg.TakeIntervalNs), LastTakeRateClaimTime: T0}
	app.AllianceKeeper.InitGenesis(ctx, &types.GenesisState{Params: p, Assets: assets})

	for i := 0; i < cfg.NActors; i++ {
		a := actorAddr(i)
		w.Actors = append(w.Actors, a)
		coins := sdk.NewCoins(sdk.NewCoin(BondDenom, math.NewInt(1_000_000_000_000)))
		fund, ok := math.NewIntFromString(cfg.Fund)
		if !ok {
			panic("bad fund")
		}
		for _, as := range cfg.Assets {
			coins = coins.Add(sdk.NewCoin(as.Denom, fund))
		}
		for _, d := range cfg.ExtraDenoms {
			coins = coins.Add(sdk.NewCoin(d, fund))
		}
		w.Mint(a, coins)
	}
	for i := 0; i < cfg.NVals; i++ {
		stake := int64(3+i) * 1_000_000
		if i < len(cfg.ValStake) {
			stake = cfg.ValStake[i]
		}
		w.CreateValidator(i, stake)
	}
	w.inBlock = true
}

// Mint creates coins out of thin air for an account (world ledger entry).
func (w *World) Mint(to sdk.AccAddress, coins sdk.Coins) {
	must(w.App.BankKeeper.MintCoins(w.Ctx, minttypes.ModuleName, coins))
	must(w.App.BankKeeper.SendCoinsFromModuleToAccount(w.Ctx, minttypes.ModuleName, to, coins))
	w.Minted = w.Minted.Add(coins...)
}

func (w *World) CreateValidator(i int, stake int64) TxResult {
	opAcc := valOperAddr(i)
	w.Mint(opAcc, sdk.NewCoins(sdk.NewCoin(BondDenom, math.NewInt(stake*10))))
	pk := ed25519.GenPrivKeyFromSecret([]byte(fmt.Sprintf("vmon-val-%d", i))).PubKey()
	anyPk, err := codectypes.NewAnyWithValue(pk)
	must(err)
	va := sdk.ValAddress(opAcc)
	msg := &stakingtypes.MsgCreateValidator{
		Description:       stakingtypes.NewDescription(fmt.Sprintf("v%d", i), "", "", "", ""),
		Commission:        stakingtypes.NewCommissionRates(math.LegacyMustNewDecFromStr("0.1"), math.LegacyMustNewDecFromStr("0.2"), math.LegacyMustNewDecFromStr("0.01")),
		MinSelfDelegation: math.OneInt(), ValidatorAddress: va.String(), Pubkey: anyPk,
		Value: sdk.NewCoin(BondDenom, math.NewInt(stake)),
	}
	res := w.RunMsg(msg)
	if res.OK {
		w.Vals = append(w.Vals, ValInfo{Oper: va, Cons: sdk.ConsAddress(pk.Address()), Acc: opAcc, Name: fmt.Sprintf("v%d", i)})
	}
	return res
}

// ---- transactions ------------------------------------------------------------------------------

type TxResult struct {
	OK     bool
	Err    string
	Panic  string
	Stack  string
	Events []abci.Event
	// registered error identity (codespace, code) of Err when it has one: classification prefers it to the
	// message text, so that a reworded message of the module does not change a verdict
	Codespace string
	Code      uint32
}

// IsErr reports whether the result failed with the registered error (codespace, code), or - for errors that
// lost their identity through plain wrapping - with a message containing text.
func (r TxResult) IsErr(codespace string, code uint32, text string) bool {
	if r.OK {
		return false
	}
	if r.Codespace == codespace && r.Code == code && code != 1 {
		return true
	}
	return text != "" && strings.Contains(r.Err+r.Panic, text)
}

func (r TxResult) String() string {
	if r.OK {
		return "ok"
	}
	if r.Panic != "" {
		return "panic: " + r.Panic
	}
	return "err: " + r.Err
}

// RunMsg executes a message through the app's message router with baseapp's atomicity:
// the branch is written only on success; a panic is recorded distinctly from an error.
func (w *World) RunMsg(msg sdk.Msg) (res TxResult) {
	return w.RunMsgOn(w.Ctx, msg, true)
}

func (w *World) RunMsgOn(ctx sdk.Context, msg sdk.Msg, commit bool) (res TxResult) {
	cctx, write := ctx.CacheContext()
	cctx = cctx.WithEventManager(sdk.NewEventManager())
	defer func() {
		if r := recover(); r != nil {
			res = TxResult{Panic: fmt.Sprint(r), Stack: shortStack()}
		}
	}()
	h := w.App.MsgServiceRouter().Handler(msg)
	if h == nil {
		return TxResult{Err: "no handler for " + sdk.MsgTypeURL(msg)}
	}
	r, err := h(cctx, msg)
	if err != nil {
		cs, code, _ := errorsmod.ABCIInfo(err, false)
		return TxResult{Err: err.Error(), Codespace: cs, Code: code}
	}
	if commit {
		write()
	}
	return TxResult{OK: true, Events: r.GetEvents().ToABCIEvents()}
}

// RunFn runs an arbitrary state transition with the same atomicity (used for legacy gov contents).
func (w *World) RunFn(ctx sdk.Context, commit bool, fn func(ctx sdk.Context) error) (res TxResult) {
	cctx, write := ctx.CacheContext()
	em := sdk.NewEventManager()
	cctx = cctx.WithEventManager(em)
	defer func() {
		if r := recover(); r != nil {
			res = TxResult{Panic: fmt.Sprint(r), Stack: shortStack()}
		}
	}()
	if err := fn(cctx); err != nil {
		return TxResult{Err: err.Error()}
	}
	if commit {
		write()
	}
	return TxResult{OK: true, Events: em.ABCIEvents()}
}

func shortStack() string {
	s := string(debug.Stack())
	lines := strings.Split(s, "\n")
	var out []string
	for _, l := range lines {
		if strings.Contains(l, "terra-money/alliance") || strings.Contains(l, "/repo/") {
			out = append(out, strings.TrimSpace(l))
		}
		if len(out) >= 12 {
			break
		}
	}
	return strings.Join(out, " | ")
}

// Donate: an unsolicited third-party transfer into the custody account through a plain MsgSend
// (the application deliberately does not block the alliance module account as a recipient).
func (w *World) Donate(from sdk.AccAddress, coins sdk.Coins) TxResult {
	res := w.RunMsg(&banktypes.MsgSend{FromAddress: from.String(), ToAddress: w.ModAddr.String(), Amount: coins})
	if res.OK {
		for _, c := range coins {
			cur, ok := w.Donated[c.Denom]
			if !ok {
				cur = math.ZeroInt()
			}
			w.Donated[c.Denom] = cur.Add(c.Amount)
		}
	}
	return res
}

// ---- blocks ------------------------------------------------------------------------------------

type BlockResult struct {
	Err    string
	Panic  string
	Stack  string
	Events []abci.Event
}

func (b BlockResult) Failed() bool { return b.Err != "" || b.Panic != "" }

// EndBlock runs the real module manager EndBlocker on the main line.
func (w *World) EndBlock() (res BlockResult) {
	return w.EndBlockOn(w.Ctx)
}

func (w *World) EndBlockOn(ctx sdk.Context) (res BlockResult) {
	// a failing end-of-block halts a chain and nothing of it is committed: run it on a branch and
	// write the branch only on success, so that the state stays meaningful for the witness
	cctx, write := ctx.CacheContext()
	defer func() {
		if r := recover(); r != nil {
			res = BlockResult{Panic: fmt.Sprint(r), Stack: shortStack()}
		}
	}()
	eb, err := w.App.EndBlocker(cctx.WithEventManager(sdk.NewEventManager()))
	if err != nil {
		return BlockResult{Err: err.Error()}
	}
	write()
	return BlockResult{Events: eb.Events}
}

type Evidence struct {
	Val        int   `json:"v"`
	HeightBack int64 `json:"hb"`    // infraction height = current height - HeightBack
	Power      int64 `json:"power"` // 0 = the validator's current consensus power
}

type BlockSpec struct {
	DtNs     int64      `json:"dt"`
	Fees     string     `json:"fees,omitempty"`
	Evidence []Evidence `json:"ev,omitempty"`
	Absent   []int      `json:"absent,omitempty"`      // validators missing this block's commit
	Proposer int        `json:"proposer,omitempty"`
}

// BeginBlock advances the header and runs the real BeginBlocker with crafted ABCI inputs.
func (w *World) BeginBlock(spec BlockSpec) (res BlockResult) {
	return w.BeginBlockOn(&w.Ctx, spec, true)
}

func (w *World) BeginBlockOn(pctx *sdk.Context, spec BlockSpec, ledger bool) (res BlockResult) {
	app := w.App
	ctx := *pctx
	absent := map[string]bool{}
	for _, i := range spec.Absent {
		if i > 0 && i < len(w.Vals) {
			absent[string(w.Vals[i].Cons)] = true
		}
	}
	var votes []abci.VoteInfo
	bonded, err := app.StakingKeeper.GetBondedValidatorsByPower(ctx)
	must(err)
	pr := app.StakingKeeper.PowerReduction(ctx)
	for _, v := range bonded {
		ca, _ := v.GetConsAddr()
		flag := cmtproto.BlockIDFlagCommit
		if absent[string(ca)] {
			flag = cmtproto.BlockIDFlagAbsent
		}
		votes = append(votes, abci.VoteInfo{Validator: abci.Validator{Address: ca, Power: v.GetConsensusPower(pr)}, BlockIdFlag: flag})
	}
	hdr := ctx.BlockHeader()
	var ev []abci.Misbehavior
	for _, e := range spec.Evidence {
		if e.Val <= 0 || e.Val >= len(w.Vals) {
			continue
		}
		vi := w.Vals[e.Val]
		pw := e.Power
		if pw == 0 {
			v, err := app.StakingKeeper.GetValidator(ctx, vi.Oper)
			if err == nil {
				pw = v.GetConsensusPower(pr)
			}
		}
		h := hdr.Height + 1 - e.HeightBack
		if h < 1 {
			h = 1
		}
		ev = append(ev, abci.Misbehavior{Type: abci.MisbehaviorType_DUPLICATE_VOTE, Validator: abci.Validator{Address: vi.Cons, Power: pw}, Height: h, Time: hdr.Time.Add(time.Duration(spec.DtNs)), TotalVotingPower: 100})
	}
	hdr.Height++
	hdr.Time = hdr.Time.Add(time.Duration(spec.DtNs))
	prop := w.Vals[0].Cons
	hdr.ProposerAddress = prop
	ctx = ctx.WithBlockHeader(hdr).WithVoteInfos(votes).WithCometInfo(ci{ev: ev, lc: abci.CommitInfo{Votes: votes}, prop: prop}).WithEventManager(sdk.NewEventManager())
	*pctx = ctx
	if spec.Fees != "" {
		fee, err := sdk.ParseCoinsNormalized(spec.Fees)
		must(err)
		if !fee.IsZero() {
			must(app.BankKeeper.MintCoins(ctx, minttypes.ModuleName, fee))
			must(app.BankKeeper.SendCoinsFromModuleToModule(ctx, minttypes.ModuleName, authtypes.FeeCollectorName, fee))
			if ledger {
				w.Minted = w.Minted.Add(fee...)
			}
		}
	}
	defer func() {
		if r := recover(); r != nil {
			res = BlockResult{Panic: fmt.Sprint(r), Stack: shortStack()}
		}
	}()
	bb, err := app.BeginBlocker(ctx)
	if err != nil {
		return BlockResult{Err: err.Error()}
	}
	return BlockResult{Events: bb.Events}
}

// ---- event helpers -----------------------------------------------------------------------------

func evAttr(e abci.Event, k string) string {
	for _, a := range e.Attributes {
		if a.Key == k {
			return strings.Trim(a.Value, "\"")
		}
	}
	return ""
}

type Transfer struct {
	From, To string
	Coins    sdk.Coins
}

type Withdraw struct {
	Validator, Delegator string
	Coins                sdk.Coins
}

type ParsedEvents struct {
	Transfers []Transfer
	Mints     []Transfer // To = minter module
	Burns     []Transfer // From = burner
	Withdraws []Withdraw
	Flows     []Transfer // every bank movement, reconstructed from coin_spent/coin_received pairs (also covers
	// staking's DelegateCoins / UndelegateCoins, which emit no "transfer" event)
	Order     []string // event types in order, with an index into the typed slices: "transfer:3"
	Claims    []ClaimEv
	Raw       []abci.Event
}

type ClaimEv struct {
	Delegator, Validator string
	Coins                sdk.Coins
	Pos                  int // position in Raw
}

func parseCoins(s string) sdk.Coins {
	if s == "" {
		return sdk.NewCoins()
	}
	c, err := sdk.ParseCoinsNormalized(s)
	if err != nil {
		return sdk.NewCoins()
	}
	return c
}

func ParseEvents(evs []abci.Event) *ParsedEvents {
	p := &ParsedEvents{Raw: evs}
	var spentBy string
	var spentAmt sdk.Coins
	havePending := false
	for i, e := range evs {
		switch e.Type {
		case "coin_spent":
			spentBy, spentAmt, havePending = evAttr(e, "spender"), parseCoins(evAttr(e, "amount")), true
			continue
		case "coin_received":
			amt := parseCoins(evAttr(e, "amount"))
			if havePending && amt.Equal(spentAmt) {
				p.Flows = append(p.Flows, Transfer{From: spentBy, To: evAttr(e, "receiver"), Coins: amt})
			} else {
				p.Flows = append(p.Flows, Transfer{From: "", To: evAttr(e, "receiver"), Coins: amt}) // mint
			}
			havePending = false
			continue
		}
		if e.Type == "burn" && havePending {
			p.Flows = append(p.Flows, Transfer{From: spentBy, To: "", Coins: spentAmt})
			havePending = false
		}
		switch e.Type {
		case "transfer":
			p.Transfers = append(p.Transfers, Transfer{From: evAttr(e, "sender"), To: evAttr(e, "recipient"), Coins: parseCoins(evAttr(e, "amount"))})
			p.Order = append(p.Order, fmt.Sprintf("transfer:%d", len(p.Transfers)-1))
		case "coinbase":
			p.Mints = append(p.Mints, Transfer{To: evAttr(e, "minter"), Coins: parseCoins(evAttr(e, "amount"))})
			p.Order = append(p.Order, fmt.Sprintf("mint:%d", len(p.Mints)-1))
		case "burn":
			p.Burns = append(p.Burns, Transfer{From: evAttr(e, "burner"), Coins: parseCoins(evAttr(e, "amount"))})
			p.Order = append(p.Order, fmt.Sprintf("burn:%d", len(p.Burns)-1))
		case "withdraw_rewards":
			p.Withdraws = append(p.Withdraws, Withdraw{Validator: evAttr(e, "validator"), Delegator: evAttr(e, "delegator"), Coins: parseCoins(evAttr(e, "amount"))})
			p.Order = append(p.Order, fmt.Sprintf("withdraw:%d", len(p.Withdraws)-1))
		default:
			if strings.HasSuffix(e.Type, "ClaimAllianceRewardsEvent") {
				var coins sdk.Coins
				raw := ""
				for _, a := range e.Attributes {
					if a.Key == "coins" {
						raw = a.Value
					}
				}
				var arr []struct {
					Denom  string `json:"denom"`
					Amount string `json:"amount"`
				}
				if json.Unmarshal([]byte(raw), &arr) == nil {
					for _, x := range arr {
						amt, ok := math.NewIntFromString(x.Amount)
						if ok {
							coins = coins.Add(sdk.NewCoin(x.Denom, amt))
						}
					}
				}
				p.Claims = append(p.Claims, ClaimEv{Delegator: evAttr(e, "allianceSender"), Validator: evAttr(e, "validator"), Coins: coins, Pos: i})
			}
		}
	}
	return p
}

// ---- misc helpers ------------------------------------------------------------------------------

func (w *World) ValIndex(oper string) int {
	for i, v := range w.Vals {
		if v.Oper.String() == oper {
			return i
		}
	}
	return -1
}

func (w *World) ActorIndex(addr string) int {
	for i, a := range w.Actors {
		if a.String() == addr {
			return i
		}
	}
	return -1
}

func (w *World) Name(addr string) string {
	if i := w.ValIndex(addr); i >= 0 {
		return fmt.Sprintf("V%d", i)
	}
	if i := w.ActorIndex(addr); i >= 0 {
		return fmt.Sprintf("A%d", i)
	}
	switch addr {
	case w.ModAddr.String():
		return "mod"
	case w.PoolAddr.String():
		return "pool"
	case w.FcAddr.String():
		return "fc"
	case w.BondedAddr.String():
		return "bonded"
	case w.NotBondedAddr.String():
		return "notbonded"
	case w.DistrAddr.String():
		return "distr"
	case w.GovAddr.String():
		return "gov"
	}
	return addr
}

func sortedKeys[M ~map[string]V, V any](m M) []string {
	ks := make([]string, 0, len(m))
	for k := range m {
		ks = append(ks, k)
	}
	sort.Strings(ks)
	return ks
}

package main

// mon_time.go — per-block arithmetic oracles: C09 take rate, C14 reward-weight lifecycle.

import (
	"fmt"
	"math/big"
	"time"

	"cosmossdk.io/math"
)

const fprec = 2048

func bf(r *big.Rat) *big.Float { return new(big.Float).SetPrec(fprec).SetRat(r) }

// powFloat: base^n by repeated squaring at 2048 bits (reference for LegacyDec.Power).
func powFloat(base *big.Rat, n uint64) *big.Float {
	res := new(big.Float).SetPrec(fprec).SetInt64(1)
	b := bf(base)
	for e := n; e > 0; e >>= 1 {
		if e&1 == 1 {
			res.Mul(res, b)
		}
		b = new(big.Float).SetPrec(fprec).Mul(b, b)
		// underflow guard: values below 1e-400 are zero for every purpose here
		if b.Sign() != 0 && b.MantExp(nil) < -4000 {
			b.SetInt64(0)
		}
	}
	return res
}

func floatFloor(f *big.Float) *big.Int {
	i, _ := f.Int(nil)
	if f.Sign() < 0 && !f.IsInt() {
		i.Sub(i, big.NewInt(1))
	}
	return i
}

// ================================================================================================
// C09 take rate
// ================================================================================================

type MonC09 struct {
	BaseMon
}

func NewMonC09(r *Runner) *MonC09 { return &MonC09{BaseMon{r}} }
func (m *MonC09) Name() string    { return "C09" }

func (m *MonC09) AfterBlock(o *BlockOutcome) {
	rep := m.R.Rep
	if o.EndRes.Failed() {
		return
	}
	w := m.R.W
	pre, post := o.Pre, o.PostEnd
	L, I, T := pre.Params.LastTakeRateClaimTime, pre.Params.TakeRateClaimInterval, pre.Time
	if I <= 0 {
		return
	}
	trig := T.After(L.Add(I))
	var n uint64
	if trig {
		n = uint64(T.Sub(L) / I)
	}
	L2 := post.Params.LastTakeRateClaimTime
	anyDeducted := false
	eligible := 0
	// take-rate part of the fee-collector delta: transfers mod -> fc in the end-block event log
	toFc := map[string]math.Int{}
	for _, t := range o.EndEv.Transfers {
		if t.From == w.ModAddr.String() && t.To == w.FcAddr.String() {
			for _, c := range t.Coins {
				if cur, ok := toFc[c.Denom]; ok {
					toFc[c.Denom] = cur.Add(c.Amount)
				} else {
					toFc[c.Denom] = c.Amount
				}
			}
		}
	}
	gapClass := "n0"
	switch {
	case n == 1:
		gapClass = "n1"
	case n >= 2 && n < 10:
		gapClass = "n2-9"
	case n >= 10:
		gapClass = "n10+"
	}
	for _, d := range pre.AssetOrder {
		a := pre.Assets[d]
		pa, ok := post.Assets[d]
		if !ok {
			continue
		}
		rep.Eval("C09.total")
		started := !T.Before(a.RewardStartTime)
		want := a.TotalTokens
		tol := big.NewInt(0)
		charged := false
		if trig && a.TotalTokens.IsPositive() && a.TakeRate.IsPositive() && started {
			eligible++
			mult := powFloat(new(big.Rat).Sub(ratI64(1), ratDec(a.TakeRate)), n)
			prod := new(big.Float).SetPrec(fprec).Mul(mult, new(big.Float).SetPrec(fprec).SetInt(a.TotalTokens.BigInt()))
			// budget of the 18-digit Power: 2n ulps relative (at least one ulp absolute on the multiplier)
			bud := new(big.Float).SetPrec(fprec).SetInt(a.TotalTokens.BigInt())
			bud.Mul(bud, new(big.Float).SetPrec(fprec).SetFloat64(2e-18*float64(n)+1e-18))
			bi, _ := bud.Int(nil)
			tol.Add(big.NewInt(1), bi)
			one := new(big.Float).SetPrec(fprec).SetInt64(1)
			if prod.Cmp(one) > 0 {
				want = math.NewIntFromBigInt(floatFloor(prod))
				charged = true
			} else {
				// "a rate below one never drives a total to zero": the deduction is skipped entirely
				rep.Class("C09.floor-at-one")
			}
			// near the threshold (product within the budget of 1) either outcome - skipped, or reduced to the
			// floor of the 18-digit product, at least 1 - is within the arithmetic's resolution
			if d1 := new(big.Float).Sub(prod, one); d1.Abs(d1).Cmp(new(big.Float).SetInt(tol)) <= 0 {
				if pa.TotalTokens.Equal(a.TotalTokens) {
					want = a.TotalTokens
				} else if pa.TotalTokens.IsPositive() && pa.TotalTokens.BigInt().Cmp(new(big.Int).Add(tol, big.NewInt(1))) <= 0 {
					want = pa.TotalTokens
				}
			}
		}
		diff := new(big.Int).Sub(pa.TotalTokens.BigInt(), want.BigInt())
		if diff.CmpAbs(tol) > 0 {
			rep.Violate("C09", "C09.total", o.Idx, "asset %s rate %s, %d whole intervals (clock %s, interval %s, block time %s, started=%v): staked total %s -> %s, specified floor(T*(1-r)^n) = %s (tolerance %s)", d, a.TakeRate, n, L.Format(time.RFC3339Nano), I, T.Format(time.RFC3339Nano), started, a.TotalTokens, pa.TotalTokens, want, tol)
			return
		}
		ded := a.TotalTokens.Sub(pa.TotalTokens)
		if ded.IsNegative() {
			rep.Violate("C09", "C09.total", o.Idx, "asset %s staked total grew in end-of-block: %s -> %s", d, a.TotalTokens, pa.TotalTokens)
			return
		}
		if pa.TotalTokens.IsZero() && a.TotalTokens.IsPositive() {
			rep.Violate("C09", "C09.never-zero", o.Idx, "asset %s staked total driven to zero by the take rate", d)
			return
		}
		if ded.IsPositive() {
			rep.Sample(map[string]any{"observed": "take-rate deduction", "asset": d, "rate": a.TakeRate.String(), "intervals": n, "total_before": a.TotalTokens.String(), "total_after": pa.TotalTokens.String(), "specified": want.String(), "to_fee_collector": toFc[d].String(), "clock_before": L.Format(time.RFC3339Nano), "clock_after": L2.Format(time.RFC3339Nano)})
			anyDeducted = true
			_ = charged
			rep.Class(fmt.Sprintf("C09.deduct/%s/rate%s/mag%d", gapClass, rateClass(a.TakeRate), magClass(a.TotalTokens)))
			if !started || a.TakeRate.IsZero() {
				rep.Violate("C09", "C09.not-charged", o.Idx, "asset %s charged although started=%v rate=%s", d, started, a.TakeRate)
				return
			}
		} else if trig {
			rep.Class(fmt.Sprintf("C09.skip/started%v/rate0%v/empty%v", started, a.TakeRate.IsZero(), a.TotalTokens.IsZero()))
		}
		// exact transfer: custody -> fee collector equals the difference
		rep.Eval("C09.transfer")
		got, ok := toFc[d]
		if !ok {
			got = math.ZeroInt()
		}
		if !got.Equal(ded) {
			rep.Violate("C09", "C09.transfer", o.Idx, "asset %s: staked total lowered by %s but %s moved from custody to the fee collector in this end-of-block", d, ded, got)
			return
		}
		// every position shrinks by the same proportion TT'/TT
		if ded.IsPositive() {
			rep.Eval("C09.proportional")
			ratio := new(big.Rat).SetFrac(pa.TotalTokens.BigInt(), a.TotalTokens.BigInt())
			for _, pk := range pre.DelOrder {
				if pk.Denom != d {
					continue
				}
				wantV := new(big.Rat).Mul(pre.Value(pk), ratio)
				gotV := post.Value(pk)
				if ratAbs(new(big.Rat).Sub(wantV, gotV)).Cmp(budget(ratInt(a.TotalTokens), 1, 8)) > 0 {
					rep.Violate("C09", "C09.proportional", o.Idx, "asset %s: position (%s,%s) worth %s before the deduction is worth %s after, common factor gives %s", d, w.Name(pk.Del), w.Name(pk.Val), ratStr(pre.Value(pk)), ratStr(gotV), ratStr(wantV))
					return
				}
			}
		}
	}
	// clock
	rep.Eval("C09.clock")
	switch {
	case !trig:
		if !L2.Equal(L) && !L.IsZero() {
			rep.Violate("C09", "C09.clock", o.Idx, "take-rate clock moved %s -> %s although block time %s is not later than clock + interval %s", L.Format(time.RFC3339Nano), L2.Format(time.RFC3339Nano), T.Format(time.RFC3339Nano), I)
			return
		}
	case anyDeducted:
		want := L.Add(I * time.Duration(n))
		if !L2.Equal(want) || L2.After(T) {
			rep.Violate("C09", "C09.clock", o.Idx, "after a deduction over %d intervals the clock is %s, specified clock + n*interval = %s (block time %s)", n, L2.Format(time.RFC3339Nano), want.Format(time.RFC3339Nano), T.Format(time.RFC3339Nano))
			return
		}
		rep.Class("C09.clock/advanced-n-intervals")
	case eligible == 0:
		if !L2.Equal(T) {
			rep.Violate("C09", "C09.clock", o.Idx, "no asset is eligible for the take rate, the clock should follow the block time %s but is %s", T.Format(time.RFC3339Nano), L2.Format(time.RFC3339Nano))
			return
		}
		rep.Class("C09.clock/no-eligible-asset")
		if len(o.Pre.AssetOrder) == 0 {
			rep.Class("C09.clock/empty-whitelist")
		}
	default:
		// eligible assets exist but all deductions round to nothing: the clock waits (see clock-lag)
		if L2.After(T) || L2.Before(L) {
			rep.Violate("C09", "C09.clock", o.Idx, "clock moved backwards or past the block time: %s -> %s (block time %s)", L, L2, T)
			return
		}
		rep.Class("C09.clock/dust-only-stall")
	}
	// non-retroactivity: a deposit is not charged for intervals that had already ended when it was made
	if anyDeducted && n >= 2 {
		for i := range m.R.Sh.Dep {
			dp := &m.R.Sh.Dep[i]
			a, ok := pre.Assets[dp.Denom]
			if !ok || !a.TakeRate.IsPositive() || T.Before(a.RewardStartTime) {
				continue
			}
			if dp.Time.Before(L) {
				continue // was there for all charged intervals
			}
			// charged intervals k = 1..n end at L + k*I; those with L + k*I <= deposit time had ended before
			ended := uint64(0)
			if !dp.Time.Before(L.Add(I)) {
				ended = uint64(dp.Time.Sub(L) / I)
				if ended > n {
					ended = n
				}
			}
			rep.Eval("C09.not-retroactive")
			if ended >= 2 {
				rep.KnownFinding("C09", "clock-lag", "a deposit of %s%s made at %s was charged for %d intervals that had already ended then (clock %s, interval %s, %d intervals compounded at once at %s): the clock lags after a dust-only period or a gap of several intervals and the whole staked total is charged for all of them", dp.Amount, dp.Denom, dp.Time.Format("15:04:05.000000000"), ended, L.Format("15:04:05.000000000"), I, n, T.Format("15:04:05.000000000"))
				rep.Class("C09.known.clock-lag")
			}
		}
	}
	// deposits older than the new clock can no longer be charged retroactively: forget them
	var keep []Deposit
	for _, dp := range m.R.Sh.Dep {
		if !dp.Time.Before(L2) {
			keep = append(keep, dp)
		}
	}
	m.R.Sh.Dep = keep
}

func rateClass(r math.LegacyDec) string {
	switch {
	case r.IsZero():
		return "0"
	case r.LT(math.LegacyMustNewDecFromStr("0.000001")):
		return "tiny"
	case r.LT(math.LegacyMustNewDecFromStr("0.1")):
		return "small"
	default:
		return "large"
	}
}

func magClass(i math.Int) int {
	n := len(i.String())
	switch {
	case n <= 3:
		return 0
	case n <= 9:
		return 1
	case n <= 15:
		return 2
	case n <= 21:
		return 3
	default:
		return 4
	}
}

// ================================================================================================
// C14 reward weight lifecycle
// ================================================================================================

type MonC14 struct {
	BaseMon
}

func NewMonC14(r *Runner) *MonC14 { return &MonC14{BaseMon{r}} }
func (m *MonC14) Name() string    { return "C14" }

func (m *MonC14) rangeCheck(where string, idx int, s *Snap) {
	rep := m.R.Rep
	for _, d := range s.AssetOrder {
		a := s.Assets[d]
		rep.Eval("C14.range")
		if a.RewardWeight.IsNil() || a.RewardWeightRange.Min.IsNil() || a.RewardWeightRange.Max.IsNil() || a.RewardWeight.LT(a.RewardWeightRange.Min) || a.RewardWeight.GT(a.RewardWeightRange.Max) {
			rep.Violate("C14", "C14.range", idx, "%s: asset %s weight %s outside its range [%s, %s]", where, d, a.RewardWeight, a.RewardWeightRange.Min, a.RewardWeightRange.Max)
			return
		}
	}
}

// settledBefore: in a step that stores a different weight, every validator with pending rewards for
// the module must have its withdraw_rewards in this step's log (rewards received before the change are
// split at the old weight: the C13 monitor attributes them from the pre-step snapshot).
func (m *MonC14) settledBefore(where string, idx int, pre, post *Snap, ev *ParsedEvents, pend map[string]bool) {
	rep := m.R.Rep
	changed := false
	for _, d := range pre.AssetOrder {
		if pa, ok := post.Assets[d]; ok && !pa.RewardWeight.Equal(pre.Assets[d].RewardWeight) {
			changed = true
		}
	}
	if !changed {
		return
	}
	rep.Class("C14.weight-changed/" + where)
	if pend == nil {
		return
	}
	withdrawn := map[string]bool{}
	for _, wd := range ev.Withdraws {
		if wd.Delegator == m.R.W.ModAddr.String() {
			withdrawn[wd.Validator] = true
		}
	}
	for v := range pend {
		rep.Eval("C14.settle-before-change")
		if !withdrawn[v] {
			rep.Violate("C14", "C14.settle-before-change", idx, "%s stored a different reward weight while rewards were pending for the module on validator %s; they were not withdrawn in this step, so they will be split at the new weight", where, m.R.W.Name(v))
			return
		}
		rep.Class("C14.pending-at-change")
	}
}

func (m *MonC14) AfterTx(o *TxOutcome) {
	m.rangeCheck("tx "+o.Step.K, o.Idx, o.Post)
	if m.R.Halt || !o.Res.OK {
		return
	}
	m.settledBefore("tx "+o.Step.K, o.Idx, o.Pre, o.Post, o.Ev, o.PendingMod)
	// a transaction never moves the decay clock or the weight unless it is a governance update
	if o.Step.K == "gov_update" || o.Step.K == "legacy_update" {
		d := o.Step.Gov.Denom
		a, ok1 := o.Pre.Assets[d]
		b, ok2 := o.Post.Assets[d]
		if ok1 && ok2 {
			// intervals are counted from the moment decay is configured: when no decay was in effect
			// before (rate 1 or interval 0) and the update changes rate or interval, the decay clock
			// restarts at the block time; when decay was already in effect the clock is left alone
			m.R.Rep.Eval("C14.clock-at-configuration")
			was := a.RewardChangeInterval > 0 && !a.RewardChangeRate.Equal(math.LegacyOneDec())
			changed := !a.RewardChangeRate.Equal(b.RewardChangeRate) || a.RewardChangeInterval != b.RewardChangeInterval
			switch {
			case !was && changed:
				m.R.Rep.Class(fmt.Sprintf("C14.decay-configured/oldrate1=%v/oldivl0=%v", a.RewardChangeRate.Equal(math.LegacyOneDec()), a.RewardChangeInterval == 0))
				if !b.LastRewardChangeTime.Equal(o.Pre.Time) {
					m.R.Rep.Violate("C14", "C14.clock-at-configuration", o.Idx, "governance configured decay for %s (rate %s->%s, interval %s->%s) at %s but the decay clock is %s: intervals that elapsed before decay was configured would be applied", d, a.RewardChangeRate, b.RewardChangeRate, a.RewardChangeInterval, b.RewardChangeInterval, o.Pre.Time.Format(time.RFC3339Nano), b.LastRewardChangeTime.Format(time.RFC3339Nano))
					return
				}
			default:
				if !b.LastRewardChangeTime.Equal(a.LastRewardChangeTime) {
					m.R.Rep.Violate("C14", "C14.clock-at-configuration", o.Idx, "governance update of %s moved the decay clock %s -> %s although decay was already in effect / not reconfigured", d, a.LastRewardChangeTime.Format(time.RFC3339Nano), b.LastRewardChangeTime.Format(time.RFC3339Nano))
					return
				}
			}
		}
		return
	}
	for _, d := range o.Pre.AssetOrder {
		a, b := o.Pre.Assets[d], o.Post.Assets[d]
		if _, ok := o.Post.Assets[d]; !ok {
			continue
		}
		m.R.Rep.Eval("C14.untouched-by-tx")
		if !a.RewardWeight.Equal(b.RewardWeight) || !a.LastRewardChangeTime.Equal(b.LastRewardChangeTime) {
			m.R.Rep.Violate("C14", "C14.untouched-by-tx", o.Idx, "%s changed weight/decay clock of %s: %s@%s -> %s@%s", o.Step.K, d, a.RewardWeight, a.LastRewardChangeTime, b.RewardWeight, b.LastRewardChangeTime)
			return
		}
	}
}

func (m *MonC14) AfterBlock(o *BlockOutcome) {
	rep := m.R.Rep
	if o.EndRes.Failed() {
		return
	}
	pre, post := o.Pre, o.PostEnd
	T := pre.Time
	nDecay := 0
	for _, d := range pre.AssetOrder {
		a := pre.Assets[d]
		pa, ok := post.Assets[d]
		if !ok {
			continue
		}
		rep.Eval("C14.decay")
		due := a.RewardChangeInterval > 0 && !a.RewardChangeRate.Equal(math.LegacyOneDec()) && !a.LastRewardChangeTime.Add(a.RewardChangeInterval).After(T)
		if !due {
			if !pa.RewardWeight.Equal(a.RewardWeight) || !pa.LastRewardChangeTime.Equal(a.LastRewardChangeTime) {
				rep.Violate("C14", "C14.decay", o.Idx, "asset %s (rate %s, interval %s, clock %s) is not due at %s but weight/clock changed: %s@%s -> %s@%s", d, a.RewardChangeRate, a.RewardChangeInterval, a.LastRewardChangeTime.Format(time.RFC3339Nano), T.Format(time.RFC3339Nano), a.RewardWeight, a.LastRewardChangeTime.Format(time.RFC3339Nano), pa.RewardWeight, pa.LastRewardChangeTime.Format(time.RFC3339Nano))
				return
			}
			if a.RewardChangeInterval > 0 && !a.RewardChangeRate.Equal(math.LegacyOneDec()) {
				rep.Class("C14.not-due")
			}
			continue
		}
		nDecay++
		n := uint64(T.Sub(a.LastRewardChangeTime) / a.RewardChangeInterval)
		mult := powFloat(ratDec(a.RewardChangeRate), n)
		wf := new(big.Float).SetPrec(fprec).Mul(mult, bf(ratDec(a.RewardWeight)))
		lo, hi := bf(ratDec(a.RewardWeightRange.Min)), bf(ratDec(a.RewardWeightRange.Max))
		clamped := "in-range"
		if wf.Cmp(lo) < 0 {
			wf = lo
			clamped = "min"
		}
		if wf.Cmp(hi) > 0 {
			wf = hi
			clamped = "max"
		}
		// budget: relative 2n+2 ulps of the 18-digit power and product, at least two ulps absolute
		got := bf(ratDec(pa.RewardWeight))
		diff := new(big.Float).SetPrec(fprec).Sub(got, wf)
		diff.Abs(diff)
		bud := new(big.Float).SetPrec(fprec).Mul(new(big.Float).SetPrec(fprec).Abs(wf), new(big.Float).SetFloat64(float64(2*n+2)*1e-18))
		bud.Add(bud, new(big.Float).SetFloat64(float64(n+2)*1e-18))
		if diff.Cmp(bud) > 0 {
			rep.Violate("C14", "C14.decay", o.Idx, "asset %s: weight %s x rate %s ^ %d intervals (clamped to [%s,%s]) should be %s, stored %s", d, a.RewardWeight, a.RewardChangeRate, n, a.RewardWeightRange.Min, a.RewardWeightRange.Max, wf.Text('f', 18), pa.RewardWeight)
			return
		}
		wantClock := a.LastRewardChangeTime.Add(a.RewardChangeInterval * time.Duration(n))
		rep.Eval("C14.clock")
		if !pa.LastRewardChangeTime.Equal(wantClock) || pa.LastRewardChangeTime.After(T) {
			rep.Violate("C14", "C14.clock", o.Idx, "asset %s decay clock %s -> %s after %d intervals of %s, specified %s (block time %s)", d, a.LastRewardChangeTime.Format(time.RFC3339Nano), pa.LastRewardChangeTime.Format(time.RFC3339Nano), n, a.RewardChangeInterval, wantClock.Format(time.RFC3339Nano), T.Format(time.RFC3339Nano))
			return
		}
		nc := "n1"
		if n > 1 {
			nc = "n>1"
		}
		rc := "rate<1"
		if a.RewardChangeRate.GT(math.LegacyOneDec()) {
			rc = "rate>1"
		}
		rep.Class(fmt.Sprintf("C14.decayed/%s/%s/%s", nc, rc, clamped))
	}
	if nDecay >= 2 {
		rep.Class("C14.several-assets-decay-in-one-block")
	}
	m.rangeCheck("end-block", o.Idx, post)
	if m.R.Halt {
		return
	}
	m.settledBefore("end-block", o.Idx, pre, post, o.EndEv, o.PendingMod)
	// warm-up: an asset before its start time carries no voting power (C10 target), is not charged
	// (C09) and earns nothing (C13): here the bookkeeping flag and the start time itself
	for _, d := range post.AssetOrder {
		a := post.Assets[d]
		rep.Eval("C14.warmup-flag")
		started := !T.Before(a.RewardStartTime)
		if a.IsInitialized && !started {
			rep.Violate("C14", "C14.warmup-flag", o.Idx, "asset %s marked initialised before its reward start time %s (block time %s)", d, a.RewardStartTime, T)
			return
		}
		if !started {
			rep.Class("C14.warmup")
			if pa, ok := pre.Assets[d]; ok && !pa.TotalTokens.Equal(a.TotalTokens) {
				rep.Violate("C14", "C14.warmup-not-charged", o.Idx, "asset %s lost %s to the end-of-block while still in warm-up", d, pa.TotalTokens.Sub(a.TotalTokens))
				return
			}
		}
	}
}

package main

import "math"

func bigLog2(x float64) float64 { return math.Log2(x) }

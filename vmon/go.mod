module verif/vmon

go 1.21

require (
	cosmossdk.io/core v0.11.0
	cosmossdk.io/errors v1.0.1
	cosmossdk.io/log v1.3.1
	cosmossdk.io/math v1.2.0
	cosmossdk.io/store v1.0.2
	github.com/cometbft/cometbft v0.38.5
	github.com/cosmos/cosmos-db v1.0.0
	github.com/cosmos/cosmos-sdk v0.50.4
	github.com/stretchr/testify v1.8.4
	github.com/terra-money/alliance v0.0.0
)

require (
	cloud.google.com/go v0.110.10 // indirect
	cloud.google.com/go/compute/metadata v0.2.3 // indirect
	cloud.google.com/go/iam v1.1.5 // indirect
	cloud.google.com/go/storage v1.35.1 // indirect
	cosmossdk.io/api v0.7.3 // indirect
	cosmossdk.io/collections v0.4.0 // indirect
	cosmossdk.io/depinject v1.0.0-alpha.4 // indirect
	cosmossdk.io/x/evidence v0.1.0 // indirect
	cosmossdk.io/x/feegrant v0.1.0 // indirect
	cosmossdk.io/x/tx v0.13.0 // indirect
	cosmossdk.io/x/upgrade v0.1.0 // indirect
	filippo.io/edwards25519 v1.0.0 // indirect
	github.com/99designs/keyring v1.2.1 // indirect
	github.com/DataDog/datadog-go v3.2.0+incompatible // indirect
	github.com/aws/aws-sdk-go v1.44.224 // indirect
	github.com/beorn7/perks v1.0.1 // indirect
	github.com/bgentry/go-netrc v0.0.0-20140422174119-9fd32a8b3d3d // indirect
	github.com/bgentry/speakeasy v0.1.1-0.20220910012023-760eaf8b6816 // indirect
	github.com/bits-and-blooms/bitset v1.8.0 // indirect
	github.com/btcsuite/btcd/btcec/v2 v2.3.2 // indirect
	github.com/cenkalti/backoff/v4 v4.1.3 // indirect
	github.com/cespare/xxhash/v2 v2.2.0 // indirect
	github.com/chzyer/readline v1.5.1 // indirect
	github.com/cockroachdb/apd/v2 v2.0.2 // indirect
	github.com/cockroachdb/errors v1.11.1 // indirect
	github.com/cockroachdb/logtags v0.0.0-20230118201751-21c54148d20b // indirect
	github.com/cockroachdb/redact v1.1.5 // indirect
	github.com/cometbft/cometbft-db v0.9.1 // indirect
	github.com/cosmos/btcutil v1.0.5 // indirect
	github.com/cosmos/cosmos-proto v1.0.0-beta.4 // indirect
	github.com/cosmos/go-bip39 v1.0.0 // indirect
	github.com/cosmos/gogogateway v1.2.0 // indirect
	github.com/cosmos/gogoproto v1.4.11 // indirect
	github.com/cosmos/iavl v1.0.1 // indirect
	github.com/cosmos/ibc-go/modules/capability v1.0.0 // indirect
	github.com/cosmos/ibc-go/v8 v8.0.0 // indirect
	github.com/cosmos/ics23/go v0.10.0 // indirect
	github.com/davecgh/go-spew v1.1.2-0.20180830191138-d8f796af33cc // indirect
	github.com/decred/dcrd/dcrec/secp256k1/v4 v4.2.0 // indirect
	github.com/desertbit/timer v0.0.0-20180107155436-c41aec40b27f // indirect
	github.com/dvsekhvalnov/jose2go v1.6.0 // indirect
	github.com/emicklei/dot v1.6.1 // indirect
	github.com/fatih/color v1.15.0 // indirect
	github.com/felixge/httpsnoop v1.0.4 // indirect
	github.com/fsnotify/fsnotify v1.7.0 // indirect
	github.com/getsentry/sentry-go v0.27.0 // indirect
	github.com/go-kit/kit v0.12.0 // indirect
	github.com/go-kit/log v0.2.1 // indirect
	github.com/go-logfmt/logfmt v0.6.0 // indirect
	github.com/godbus/dbus v0.0.0-20190726142602-4481cbc300e2 // indirect
	github.com/gogo/googleapis v1.4.1 // indirect
	github.com/gogo/protobuf v1.3.2 // indirect
	github.com/golang/groupcache v0.0.0-20210331224755-41bb18bfe9da // indirect
	github.com/golang/mock v1.6.0 // indirect
	github.com/golang/protobuf v1.5.3 // indirect
	github.com/golang/snappy v0.0.4 // indirect
	github.com/google/btree v1.1.2 // indirect
	github.com/google/go-cmp v0.6.0 // indirect
	github.com/google/orderedcode v0.0.1 // indirect
	github.com/google/s2a-go v0.1.7 // indirect
	github.com/google/uuid v1.4.0 // indirect
	github.com/googleapis/enterprise-certificate-proxy v0.3.2 // indirect
	github.com/googleapis/gax-go/v2 v2.12.0 // indirect
	github.com/gorilla/handlers v1.5.2 // indirect
	github.com/gorilla/mux v1.8.1 // indirect
	github.com/gorilla/websocket v1.5.0 // indirect
	github.com/grpc-ecosystem/go-grpc-middleware v1.4.0 // indirect
	github.com/grpc-ecosystem/grpc-gateway v1.16.0 // indirect
	github.com/gsterjov/go-libsecret v0.0.0-20161001094733-a6f4afe4910c // indirect
	github.com/hashicorp/go-cleanhttp v0.5.2 // indirect
	github.com/hashicorp/go-getter v1.7.3 // indirect
	github.com/hashicorp/go-hclog v1.5.0 // indirect
	github.com/hashicorp/go-immutable-radix v1.3.1 // indirect
	github.com/hashicorp/go-metrics v0.5.2 // indirect
	github.com/hashicorp/go-plugin v1.5.2 // indirect
	github.com/hashicorp/go-safetemp v1.0.0 // indirect
	github.com/hashicorp/go-version v1.6.0 // indirect
	github.com/hashicorp/golang-lru v1.0.2 // indirect
	github.com/hashicorp/hcl v1.0.0 // indirect
	github.com/hashicorp/yamux v0.1.1 // indirect
	github.com/hdevalence/ed25519consensus v0.1.0 // indirect
	github.com/huandu/skiplist v1.2.0 // indirect
	github.com/iancoleman/strcase v0.3.0 // indirect
	github.com/improbable-eng/grpc-web v0.15.0 // indirect
	github.com/jmespath/go-jmespath v0.4.0 // indirect
	github.com/klauspost/compress v1.17.6 // indirect
	github.com/kr/pretty v0.3.1 // indirect
	github.com/kr/text v0.2.0 // indirect
	github.com/lib/pq v1.10.7 // indirect
	github.com/libp2p/go-buffer-pool v0.1.0 // indirect
	github.com/magiconair/properties v1.8.7 // indirect
	github.com/manifoldco/promptui v0.9.0 // indirect
	github.com/mattn/go-colorable v0.1.13 // indirect
	github.com/mattn/go-isatty v0.0.20 // indirect
	github.com/minio/highwayhash v1.0.2 // indirect
	github.com/mitchellh/go-homedir v1.1.0 // indirect
	github.com/mitchellh/go-testing-interface v1.14.1 // indirect
	github.com/mitchellh/mapstructure v1.5.0 // indirect
	github.com/mtibben/percent v0.2.1 // indirect
	github.com/oasisprotocol/curve25519-voi v0.0.0-20230904125328-1f23a7beb09a // indirect
	github.com/oklog/run v1.1.0 // indirect
	github.com/pelletier/go-toml/v2 v2.1.0 // indirect
	github.com/pkg/errors v0.9.1 // indirect
	github.com/pmezard/go-difflib v1.0.1-0.20181226105442-5d4384ee4fb2 // indirect
	github.com/prometheus/client_golang v1.18.0 // indirect
	github.com/prometheus/client_model v0.6.0 // indirect
	github.com/prometheus/common v0.47.0 // indirect
	github.com/prometheus/procfs v0.12.0 // indirect
	github.com/rcrowley/go-metrics v0.0.0-20201227073835-cf1acfcdf475 // indirect
	github.com/rogpeppe/go-internal v1.12.0 // indirect
	github.com/rs/cors v1.8.3 // indirect
	github.com/rs/zerolog v1.32.0 // indirect
	github.com/sagikazarmark/slog-shim v0.1.0 // indirect
	github.com/spf13/afero v1.11.0 // indirect
	github.com/spf13/cast v1.6.0 // indirect
	github.com/spf13/cobra v1.8.0 // indirect
	github.com/spf13/pflag v1.0.5 // indirect
	github.com/spf13/viper v1.18.2 // indirect
	github.com/subosito/gotenv v1.6.0 // indirect
	github.com/syndtr/goleveldb v1.0.1-0.20220721030215-126854af5e6d // indirect
	github.com/tendermint/go-amino v0.16.0 // indirect
	github.com/tidwall/btree v1.7.0 // indirect
	github.com/ulikunitz/xz v0.5.11 // indirect
	go.opencensus.io v0.24.0 // indirect
	golang.org/x/crypto v0.19.0 // indirect
	golang.org/x/exp v0.0.0-20240213143201-ec583247a57a // indirect
	golang.org/x/net v0.20.0 // indirect
	golang.org/x/oauth2 v0.16.0 // indirect
	golang.org/x/sync v0.5.0 // indirect
	golang.org/x/sys v0.17.0 // indirect
	golang.org/x/term v0.17.0 // indirect
	golang.org/x/text v0.14.0 // indirect
	golang.org/x/time v0.5.0 // indirect
	golang.org/x/xerrors v0.0.0-20220907171357-04be3eba64a2 // indirect
	google.golang.org/api v0.153.0 // indirect
	google.golang.org/genproto v0.0.0-20231211222908-989df2bf70f3 // indirect
	google.golang.org/genproto/googleapis/api v0.0.0-20231120223509-83a465c0220f // indirect
	google.golang.org/genproto/googleapis/rpc v0.0.0-20231212172506-995d672761c0 // indirect
	google.golang.org/grpc v1.60.1 // indirect
	google.golang.org/protobuf v1.32.0 // indirect
	gopkg.in/ini.v1 v1.67.0 // indirect
	gopkg.in/yaml.v3 v3.0.1 // indirect
	gotest.tools/v3 v3.5.1 // indirect
	nhooyr.io/websocket v1.8.6 // indirect
	pgregory.net/rapid v1.1.0 // indirect
	sigs.k8s.io/yaml v1.4.0 // indirect
)

replace github.com/terra-money/alliance => /repo

replace github.com/syndtr/goleveldb => github.com/syndtr/goleveldb v1.0.1-0.20210819022825-2ae1ddf74ef7

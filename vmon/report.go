package main

// report.go — per-history observation record: assertion evaluations, situation classes, violations,
// known findings, samples. Reports of all histories of a check are merged into the evidence file.

import (
	"encoding/json"
	"fmt"
	"sort"
)

type Violation struct {
	Prop   string `json:"prop"`
	Assert string `json:"assert"`
	Msg    string `json:"msg"`
	Step   int    `json:"step"`
}

type KnownHit struct {
	Prop  string `json:"prop"`
	Cause string `json:"cause"`
	Msg   string `json:"msg"`
	Count int    `json:"count"`
}

type Report struct {
	Prop     string            `json:"prop"`
	Profile  string            `json:"profile"`
	Index    int               `json:"index"`
	Steps    int               `json:"steps"`
	Evals    map[string]int    `json:"evals"`
	Classes  map[string]int    `json:"classes"`
	Counts   map[string]int    `json:"counts"`
	Viol     []Violation       `json:"viol,omitempty"`
	Known    map[string]*KnownHit `json:"known,omitempty"`
	Samples  []json.RawMessage `json:"samples,omitempty"`
	Replay   string            `json:"replay,omitempty"`
	Inconcl  []string          `json:"inconclusive,omitempty"`
	WallMs   int64             `json:"wall_ms"`
	Digest   string            `json:"digest,omitempty"` // C19: hash of all per-step result/event/state digests of the first run
	runner   *Runner
}

func NewReport(prop, profile string, index int) *Report {
	return &Report{Prop: prop, Profile: profile, Index: index, Evals: map[string]int{}, Classes: map[string]int{}, Counts: map[string]int{}, Known: map[string]*KnownHit{}}
}

func (r *Report) Eval(assert string)           { r.Evals[assert]++ }
func (r *Report) Class(key string)             { r.Classes[key]++ }
func (r *Report) Count(key string, n int)      { r.Counts[key] += n }
func (r *Report) Op(kind string, res TxResult) {
	s := "ok"
	if res.Panic != "" {
		s = "panic"
	} else if !res.OK {
		s = "err"
	}
	r.Counts["op."+kind+"."+s]++
}

// Violate records a violation of the property under check and halts the history.
func (r *Report) Violate(prop, assert string, step int, format string, a ...any) {
	msg := fmt.Sprintf(format, a...)
	if prop != r.Prop {
		// monitors of other properties may run as helpers; only the property under check decides
		r.Counts["foreign."+prop+"."+assert]++
		return
	}
	r.Viol = append(r.Viol, Violation{Prop: prop, Assert: assert, Msg: msg, Step: step})
	if r.runner != nil {
		r.runner.Halt = true
	}
}

func (r *Report) KnownFinding(prop, cause string, format string, a ...any) {
	if prop != r.Prop {
		// helper monitors of other properties only count
		r.Counts["foreign-known."+prop+"."+cause]++
		return
	}
	k := prop + "/" + cause
	h := r.Known[k]
	if h == nil {
		h = &KnownHit{Prop: prop, Cause: cause, Msg: fmt.Sprintf(format, a...)}
		r.Known[k] = h
	}
	h.Count++
}

func (r *Report) Sample(v any) {
	if len(r.Samples) >= 3 {
		return
	}
	b, err := json.Marshal(v)
	if err == nil {
		r.Samples = append(r.Samples, b)
	}
}

func (r *Report) Inconclusive(why string) { r.Inconcl = append(r.Inconcl, why) }

// ---- merged summary ----------------------------------------------------------------------------

type Summary struct {
	Histories int
	Steps     int
	Evals     map[string]int
	Classes   map[string]int
	Counts    map[string]int
	Viol      []Violation
	Replays   []string
	Known     map[string]*KnownHit
	Samples   []json.RawMessage
	Inconcl   []string
}

func NewSummary() *Summary {
	return &Summary{Evals: map[string]int{}, Classes: map[string]int{}, Counts: map[string]int{}, Known: map[string]*KnownHit{}}
}

func (s *Summary) Add(r *Report) {
	s.Histories++
	s.Steps += r.Steps
	for k, v := range r.Evals {
		s.Evals[k] += v
	}
	for k, v := range r.Classes {
		s.Classes[k] += v
	}
	for k, v := range r.Counts {
		s.Counts[k] += v
	}
	for _, v := range r.Viol {
		s.Viol = append(s.Viol, v)
		s.Replays = append(s.Replays, r.Replay)
	}
	for k, h := range r.Known {
		if s.Known[k] == nil {
			c := *h
			s.Known[k] = &c
		} else {
			s.Known[k].Count += h.Count
		}
	}
	if len(s.Samples) < 4 {
		s.Samples = append(s.Samples, r.Samples...)
	}
	s.Inconcl = append(s.Inconcl, r.Inconcl...)
}

func (s *Summary) TotalEvals() int {
	n := 0
	for _, v := range s.Evals {
		n += v
	}
	return n
}

func sortedIntMap(m map[string]int) []string {
	ks := make([]string, 0, len(m))
	for k := range m {
		ks = append(ks, k)
	}
	sort.Strings(ks)
	return ks
}

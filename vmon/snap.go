package main

// snap.go — eager typed snapshot of the observable state, decoded independently from the raw KV
// store of the alliance module (DESIGN.md 3.3 channel 3). An sdk.Context is a handle on a live
// store, so everything the oracles need "from before the step" is copied into plain data here.

import (
	"bytes"
	"fmt"
	"math/big"
	"sort"
	"time"

	"cosmossdk.io/math"
	sdk "github.com/cosmos/cosmos-sdk/types"
	stakingtypes "github.com/cosmos/cosmos-sdk/x/staking/types"

	"github.com/terra-money/alliance/x/alliance/types"
)

type PosKey struct{ Del, Val, Denom string }

func (p PosKey) String() string { return p.Del + "|" + p.Val + "|" + p.Denom }

type RedelRec struct {
	Del, Src, Dst, Denom string
	Amount               math.Int
	Completion           time.Time
}

type RedelIdx struct {
	Src, Dst, Del, Denom string
	Completion           time.Time
}

type UnbEntry struct {
	Del, Val, Denom string
	Amount          math.Int
}

type UnbBucket struct {
	Completion time.Time
	Del        string
	Entries    []UnbEntry
}

type UnbIdx struct {
	Val, Del, Denom string
	Completion      time.Time
}

type ValSnap struct {
	Oper       string
	Info       types.AllianceValidatorInfo
	HasInfo    bool
	Exists     bool // staking validator exists
	Status     stakingtypes.BondStatus
	Jailed     bool
	Tokens     math.Int
	DelShares  math.LegacyDec
	ModShares  math.LegacyDec // alliance module's staking delegation shares on this validator
	HasModDel  bool
	ModTokens  *big.Rat // tokens represented by ModShares (exact)
}

type WeightSnap struct {
	Denom, Val string
	Height     uint64
	Snapshot   types.RewardWeightChangeSnapshot
}

type Snap struct {
	Time   time.Time
	Height int64
	Params types.Params

	Assets     map[string]types.AllianceAsset
	AssetOrder []string
	Vals       map[string]*ValSnap
	ValOrder   []string
	Dels       map[PosKey]types.Delegation
	DelOrder   []PosKey
	Redels     []RedelRec
	RedelQueue []RedelRec // entries of the time queue (0x23), completion from the key
	RedelIndex []RedelIdx
	Unb        []UnbBucket
	UnbIndex   []UnbIdx
	Flag       bool
	Weights    []WeightSnap
	BadKeys    []string // keys under unknown prefixes / undecodable

	Bal         map[string]sdk.Coins // by address (module accounts, actors, validator operators)
	Supply      sdk.Coins
	TotalBonded math.Int
	Unbonding   time.Duration
	ModUnbonding int // number of staking unbonding-delegation / redelegation records of the module account
	rawAlliance  []byte // raw dump of the alliance store
}

func ratDec(d math.LegacyDec) *big.Rat {
	if d.IsNil() {
		return new(big.Rat)
	}
	return new(big.Rat).SetFrac(d.BigInt(), new(big.Int).Exp(big.NewInt(10), big.NewInt(18), nil))
}

func ratInt(i math.Int) *big.Rat {
	if i.IsNil() {
		return new(big.Rat)
	}
	return new(big.Rat).SetInt(i.BigInt())
}

func ratI64(i int64) *big.Rat { return new(big.Rat).SetInt64(i) }

func decAmount(dc sdk.DecCoins, denom string) math.LegacyDec {
	for _, c := range dc {
		if c.Denom == denom {
			return c.Amount
		}
	}
	return math.LegacyZeroDec()
}

// lp reads one length-prefixed field.
func lp(b []byte, off int) ([]byte, int, error) {
	if off >= len(b) {
		return nil, off, fmt.Errorf("short key")
	}
	n := int(b[off])
	off++
	if off+n > len(b) {
		return nil, off, fmt.Errorf("short key field")
	}
	return b[off : off+n], off + n, nil
}

func denomOf(b []byte) string {
	if len(b) > 0 && b[len(b)-1] == 0 {
		return string(b[:len(b)-1])
	}
	return string(b)
}

func (w *World) Snapshot(ctx sdk.Context) *Snap {
	app := w.App
	cdc := app.AppCodec()
	s := &Snap{Time: ctx.BlockTime(), Height: ctx.BlockHeight(), Assets: map[string]types.AllianceAsset{}, Vals: map[string]*ValSnap{}, Dels: map[PosKey]types.Delegation{}, Bal: map[string]sdk.Coins{}}
	st := ctx.MultiStore().GetKVStore(app.GetKey(types.StoreKey))
	it := st.Iterator(nil, nil)
	var raw bytes.Buffer
	bad := func(k []byte, why string) { s.BadKeys = append(s.BadKeys, fmt.Sprintf("%x (%s)", k, why)) }
	for ; it.Valid(); it.Next() {
		k := append([]byte{}, it.Key()...)
		v := append([]byte{}, it.Value()...)
		if len(k) == 0 {
			continue
		}
		raw.Write(k)
		raw.WriteByte(0xff)
		raw.Write(v)
		raw.WriteByte(0xfe)
		switch k[0] {
		case 0x02:
			if err := cdc.Unmarshal(v, &s.Params); err != nil {
				bad(k, "params")
			}
		case 0x11:
			var a types.AllianceAsset
			if err := cdc.Unmarshal(v, &a); err != nil {
				bad(k, "asset")
				continue
			}
			f, _, err := lp(k, 1)
			if err != nil || string(f) != a.Denom {
				bad(k, "asset key/denom mismatch")
			}
			s.Assets[a.Denom] = a
			s.AssetOrder = append(s.AssetOrder, a.Denom)
		case 0x12:
			var info types.AllianceValidatorInfo
			if err := cdc.Unmarshal(v, &info); err != nil {
				bad(k, "valinfo")
				continue
			}
			f, _, err := lp(k, 1)
			if err != nil {
				bad(k, "valinfo key")
				continue
			}
			oper := sdk.ValAddress(f).String()
			s.Vals[oper] = &ValSnap{Oper: oper, Info: info, HasInfo: true}
		case 0x13:
			s.Flag = true
		case 0x14:
			var sn types.RewardWeightChangeSnapshot
			if err := cdc.Unmarshal(v, &sn); err != nil {
				bad(k, "weight snapshot")
				continue
			}
			d, off, err := lp(k, 1)
			if err != nil {
				bad(k, "ws key")
				continue
			}
			va, off, err := lp(k, off)
			if err != nil || len(k)-off != 8 {
				bad(k, "ws key")
				continue
			}
			s.Weights = append(s.Weights, WeightSnap{Denom: denomOf(d), Val: sdk.ValAddress(va).String(), Height: sdk.BigEndianToUint64(k[off:]), Snapshot: sn})
		case 0x21:
			var d types.Delegation
			if err := cdc.Unmarshal(v, &d); err != nil {
				bad(k, "delegation")
				continue
			}
			da, off, e1 := lp(k, 1)
			va, off, e2 := lp(k, off)
			dn, _, e3 := lp(k, off)
			if e1 != nil || e2 != nil || e3 != nil || sdk.AccAddress(da).String() != d.DelegatorAddress || sdk.ValAddress(va).String() != d.ValidatorAddress || denomOf(dn) != d.Denom {
				bad(k, "delegation key/value mismatch")
			}
			pk := PosKey{d.DelegatorAddress, d.ValidatorAddress, d.Denom}
			s.Dels[pk] = d
			s.DelOrder = append(s.DelOrder, pk)
		case 0x22:
			var r types.Redelegation
			if err := cdc.Unmarshal(v, &r); err != nil {
				bad(k, "redelegation")
				continue
			}
			da, off, e1 := lp(k, 1)
			dn, off, e2 := lp(k, off)
			dv, off, e3 := lp(k, off)
			if e1 != nil || e2 != nil || e3 != nil {
				bad(k, "redelegation key")
				continue
			}
			t, err := sdk.ParseTimeBytes(k[off:])
			if err != nil {
				bad(k, "redelegation key time")
				continue
			}
			if sdk.AccAddress(da).String() != r.DelegatorAddress || sdk.ValAddress(dv).String() != r.DstValidatorAddress || denomOf(dn) != r.Balance.Denom {
				bad(k, "redelegation key/value mismatch")
			}
			s.Redels = append(s.Redels, RedelRec{Del: r.DelegatorAddress, Src: r.SrcValidatorAddress, Dst: r.DstValidatorAddress, Denom: r.Balance.Denom, Amount: r.Balance.Amount, Completion: t})
		case 0x23:
			var q types.QueuedRedelegation
			if err := cdc.Unmarshal(v, &q); err != nil {
				bad(k, "redel queue")
				continue
			}
			t, err := sdk.ParseTimeBytes(k[1:])
			if err != nil {
				bad(k, "redel queue time")
				continue
			}
			for _, r := range q.Entries {
				s.RedelQueue = append(s.RedelQueue, RedelRec{Del: r.DelegatorAddress, Src: r.SrcValidatorAddress, Dst: r.DstValidatorAddress, Denom: r.Balance.Denom, Amount: r.Balance.Amount, Completion: t})
			}
		case 0x24:
			var q types.QueuedUndelegation
			if err := cdc.Unmarshal(v, &q); err != nil {
				bad(k, "undelegation queue")
				continue
			}
			tb, off, e1 := lp(k, 1)
			da, _, e2 := lp(k, off)
			if e1 != nil || e2 != nil {
				bad(k, "undelegation key")
				continue
			}
			t, err := sdk.ParseTimeBytes(tb)
			if err != nil {
				bad(k, "undelegation key time")
				continue
			}
			b := UnbBucket{Completion: t, Del: sdk.AccAddress(da).String()}
			for _, e := range q.Entries {
				b.Entries = append(b.Entries, UnbEntry{Del: e.DelegatorAddress, Val: e.ValidatorAddress, Denom: e.Balance.Denom, Amount: e.Balance.Amount})
			}
			s.Unb = append(s.Unb, b)
		case 0x31:
			sv, off, e1 := lp(k, 1)
			tb, off, e2 := lp(k, off)
			dn, off, e3 := lp(k, off)
			dv, off, e4 := lp(k, off)
			da, _, e5 := lp(k, off)
			if e1 != nil || e2 != nil || e3 != nil || e4 != nil || e5 != nil {
				bad(k, "redel index key")
				continue
			}
			t, err := sdk.ParseTimeBytes(tb)
			if err != nil {
				bad(k, "redel index time")
				continue
			}
			s.RedelIndex = append(s.RedelIndex, RedelIdx{Src: sdk.ValAddress(sv).String(), Dst: sdk.ValAddress(dv).String(), Del: sdk.AccAddress(da).String(), Denom: denomOf(dn), Completion: t})
		case 0x32:
			va, off, e1 := lp(k, 1)
			tb, off, e2 := lp(k, off)
			dn, off, e3 := lp(k, off)
			da, _, e4 := lp(k, off)
			if e1 != nil || e2 != nil || e3 != nil || e4 != nil {
				bad(k, "unbonding index key")
				continue
			}
			t, err := sdk.ParseTimeBytes(tb)
			if err != nil {
				bad(k, "unbonding index time")
				continue
			}
			s.UnbIndex = append(s.UnbIndex, UnbIdx{Val: sdk.ValAddress(va).String(), Del: sdk.AccAddress(da).String(), Denom: denomOf(dn), Completion: t})
		default:
			bad(k, "unknown prefix")
		}
	}
	it.Close()
	s.rawAlliance = raw.Bytes()

	// staking view
	vals, err := app.StakingKeeper.GetAllValidators(ctx)
	must(err)
	for _, v := range vals {
		vs := s.Vals[v.OperatorAddress]
		if vs == nil {
			vs = &ValSnap{Oper: v.OperatorAddress}
			s.Vals[v.OperatorAddress] = vs
		}
		vs.Exists = true
		vs.Status = v.Status
		vs.Jailed = v.Jailed
		vs.Tokens = v.Tokens
		vs.DelShares = v.DelegatorShares
		va, _ := sdk.ValAddressFromBech32(v.OperatorAddress)
		d, err := app.StakingKeeper.GetDelegation(ctx, w.ModAddr, va)
		vs.ModTokens = new(big.Rat)
		vs.ModShares = math.LegacyZeroDec()
		if err == nil {
			vs.HasModDel = true
			vs.ModShares = d.Shares
			if !v.DelegatorShares.IsZero() {
				x := new(big.Rat).Mul(ratDec(d.Shares), ratInt(v.Tokens))
				vs.ModTokens = x.Quo(x, ratDec(v.DelegatorShares))
			}
		}
	}
	s.ValOrder = sortedKeys(s.Vals)
	tb, err := app.StakingKeeper.TotalBondedTokens(ctx)
	must(err)
	s.TotalBonded = tb
	s.Unbonding, _ = app.StakingKeeper.UnbondingTime(ctx)
	ubds, _ := app.StakingKeeper.GetAllUnbondingDelegations(ctx, w.ModAddr)
	s.ModUnbonding = len(ubds)

	// bank view
	addrs := []sdk.AccAddress{w.ModAddr, w.PoolAddr, w.FcAddr, w.BondedAddr, w.NotBondedAddr, w.DistrAddr}
	addrs = append(addrs, w.Actors...)
	for _, a := range addrs {
		s.Bal[a.String()] = app.BankKeeper.GetAllBalances(ctx, a)
	}
	s.Supply = sdk.NewCoins()
	app.BankKeeper.IterateTotalSupply(ctx, func(c sdk.Coin) bool {
		s.Supply = s.Supply.Add(c)
		return false
	})
	return s
}

// ---- exact values -------------------------------------------------------------------------------

// ValTokens: exact token value of validator V's stake in an asset: vs/tvs * TT.
func (s *Snap) ValTokens(val, denom string) *big.Rat {
	a, ok := s.Assets[denom]
	v := s.Vals[val]
	if !ok || v == nil || !v.HasInfo {
		return new(big.Rat)
	}
	vs := ratDec(decAmount(v.Info.ValidatorShares, denom))
	tvs := ratDec(a.TotalValidatorShares)
	if tvs.Sign() == 0 {
		// ConvertNewShareToDecToken returns totalTokens when total shares are zero
		return ratInt(a.TotalTokens)
	}
	x := new(big.Rat).Quo(vs, tvs)
	return x.Mul(x, ratInt(a.TotalTokens))
}

// Value: exact redeemable token value of a position.
func (s *Snap) Value(p PosKey) *big.Rat {
	d, ok := s.Dels[p]
	v := s.Vals[p.Val]
	if !ok || v == nil || !v.HasInfo {
		return new(big.Rat)
	}
	if d.Shares.IsZero() {
		return new(big.Rat) // a position without shares owns nothing
	}
	S := ratDec(decAmount(v.Info.TotalDelegatorShares, p.Denom))
	if S.Sign() == 0 {
		return s.ValTokens(p.Val, p.Denom)
	}
	x := new(big.Rat).Quo(ratDec(d.Shares), S)
	return x.Mul(x, s.ValTokens(p.Val, p.Denom))
}

// Reported: the API value floor(value + 0.01), computed here in exact rationals (an independent
// re-derivation; the code uses 18-digit decimals).
func (s *Snap) Reported(p PosKey) *big.Int {
	x := new(big.Rat).Add(s.Value(p), big.NewRat(1, 100))
	return new(big.Int).Quo(x.Num(), x.Denom())
}

func ratFloor(x *big.Rat) *big.Int {
	q := new(big.Int)
	m := new(big.Int)
	q.DivMod(x.Num(), x.Denom(), m)
	return q
}

func ratAbs(x *big.Rat) *big.Rat { return new(big.Rat).Abs(x) }

func ratStr(x *big.Rat) string {
	if x == nil {
		return "nil"
	}
	return x.FloatString(6)
}

func (s *Snap) UnbondingTotal(denom string) math.Int {
	t := math.ZeroInt()
	for _, b := range s.Unb {
		for _, e := range b.Entries {
			if e.Denom == denom {
				t = t.Add(e.Amount)
			}
		}
	}
	return t
}

func (s *Snap) BalOf(addr sdk.AccAddress, denom string) math.Int {
	return s.Bal[addr.String()].AmountOf(denom)
}

// sorted multiset rendering helpers (for equality of raw structures vs shadow)
func sortStrings(xs []string) []string {
	out := append([]string{}, xs...)
	sort.Strings(out)
	return out
}

func equalStringMultiset(a, b []string) bool {
	a, b = sortStrings(a), sortStrings(b)
	if len(a) != len(b) {
		return false
	}
	for i := range a {
		if a[i] != b[i] {
			return false
		}
	}
	return true
}

// DumpStores renders the full raw content of the named stores (C18/C19).
func (w *World) DumpStores(ctx sdk.Context, names ...string) []byte {
	var buf bytes.Buffer
	for _, n := range names {
		key := w.App.GetKey(n)
		if key == nil {
			continue
		}
		st := ctx.MultiStore().GetKVStore(key)
		it := st.Iterator(nil, nil)
		buf.WriteString("##" + n + "\n")
		for ; it.Valid(); it.Next() {
			fmt.Fprintf(&buf, "%x=%x\n", it.Key(), it.Value())
		}
		it.Close()
	}
	return buf.Bytes()
}

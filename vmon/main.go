package main

// main.go — orchestration: `vmon check <ID> <tier>` spawns child processes over disjoint history
// index ranges, merges their per-history reports, writes /verif/evidence/<ID>.json and prints the
// KNOWN-FINDING / VIOLATION lines; `vmon replay <file>` re-executes an explicit history.

import (
	"syscall"
	"encoding/hex"
	"crypto/sha256"
	"runtime/debug"
	sdk "github.com/cosmos/cosmos-sdk/types"
	"bufio"
	"encoding/json"
	"fmt"
	"os"
	"os/exec"
	"path/filepath"
	"runtime"
	"sort"
	"strconv"
	"strings"
	"sync"
	"time"
)

var verifDir = "/verif"

func envSeed() uint64 {
	s := os.Getenv("VERIF_SEED")
	if s == "" {
		return 1
	}
	n, err := strconv.ParseInt(s, 10, 64)
	if err != nil {
		return 1
	}
	return uint64(n)
}

func main() {
	reapSessionBus()
	if d := os.Getenv("VERIF_DIR"); d != "" {
		verifDir = d
	}
	if len(os.Args) < 2 {
		fmt.Println("usage: vmon check <ID> <quick|thorough> | child ... | replay <file> | list")
		os.Exit(2)
	}
	switch os.Args[1] {
	case "check":
		if len(os.Args) < 4 {
			fmt.Println("usage: vmon check <ID> <quick|thorough>")
			os.Exit(2)
		}
		os.Exit(cmdCheck(os.Args[2], os.Args[3]))
	case "child":
		os.Exit(cmdChild(os.Args[2:]))
	case "replay":
		os.Exit(cmdReplay(os.Args[2:]))
	case "one":
		// vmon one <ID> <profile> <index> <out.json>: run a single history of a check and save it
		def := checkDefs()[os.Args[2]]
		idx, _ := strconv.Atoi(os.Args[4])
		rep := RunHistory(NewWorld(), def, os.Args[3], envSeed(), idx, "quick", "")
		_ = rep.runner.Hist.Save(os.Args[5])
		for _, v := range rep.Viol {
			fmt.Printf("violated %s at step %d: %s\n", v.Assert, v.Step, v.Msg)
		}
		fmt.Printf("steps %d classes %v\n", rep.Steps, sortedIntMap(rep.Classes))
	case "shrink":
		os.Exit(cmdShrink(os.Args[2:]))
	case "witness":
		os.Exit(cmdWitness(os.Args[2:]))
	case "race":
		os.Exit(cmdRace(os.Args[2:]))
	case "list":
		for _, id := range sortedKeys(checkDefs()) {
			fmt.Println(id)
		}
	default:
		fmt.Println("unknown command", os.Args[1])
		os.Exit(2)
	}
}

// ---- jobs --------------------------------------------------------------------------------------

type Job struct {
	Profile string
	Index   int
}

func jobsFor(def *CheckDef, tier string) []Job {
	var jobs []Job
	scale := 1.0
	if s := os.Getenv("VMON_SCALE"); s != "" {
		if f, err := strconv.ParseFloat(s, 64); err == nil {
			scale = f
		}
	}
	for _, pr := range def.Runs {
		n := pr.Quick
		if tier == "thorough" {
			n = pr.Thorough
		}
		n = int(float64(n)*scale + 0.5)
		if n < 1 {
			n = 1
		}
		for i := 0; i < n; i++ {
			jobs = append(jobs, Job{pr.Profile, i})
		}
	}
	return jobs
}

// reapSessionBus: a dependency of the application (99designs/keyring -> godbus) connects to the D-Bus session bus
// in a package init(); when DBUS_SESSION_BUS_ADDRESS is not set it starts a daemon through dbus-launch, and that
// daemon (plus its socket under /tmp) outlives the process. No bus is needed here. ./check exports a dummy
// address, children inherit it; for direct invocations the daemon that init() started for THIS process is found
// through its listening socket and terminated, and the dummy address is set for everything spawned from here.
func reapSessionBus() {
	const dummy = "unix:path=/nonexistent/vmon-no-session-bus"
	defer os.Setenv("DBUS_SESSION_BUS_ADDRESS", dummy)
	orig, _ := os.ReadFile("/proc/self/environ")
	for _, kv := range strings.Split(string(orig), "\x00") {
		if strings.HasPrefix(kv, "DBUS_SESSION_BUS_ADDRESS=") {
			return // inherited: nothing was started for this process
		}
	}
	addr := os.Getenv("DBUS_SESSION_BUS_ADDRESS") // set by godbus after dbus-launch
	path := ""
	for _, part := range strings.Split(strings.TrimPrefix(addr, "unix:"), ",") {
		if strings.HasPrefix(part, "path=") {
			path = strings.TrimPrefix(part, "path=")
		}
	}
	if path == "" || !strings.HasPrefix(path, "/tmp/dbus-") {
		return
	}
	inode := ""
	if b, err := os.ReadFile("/proc/net/unix"); err == nil {
		for _, l := range strings.Split(string(b), "\n") {
			f := strings.Fields(l)
			if len(f) >= 8 && f[7] == path {
				inode = f[6]
			}
		}
	}
	if inode != "" {
		procs, _ := filepath.Glob("/proc/[0-9]*")
		for _, pd := range procs {
			cl, err := os.ReadFile(filepath.Join(pd, "cmdline"))
			if err != nil || !strings.Contains(string(cl), "dbus-daemon") {
				continue
			}
			fds, _ := filepath.Glob(filepath.Join(pd, "fd", "*"))
			for _, fd := range fds {
				if t, err := os.Readlink(fd); err == nil && t == "socket:["+inode+"]" {
					if pid, err := strconv.Atoi(filepath.Base(pd)); err == nil {
						if pr, err := os.FindProcess(pid); err == nil {
							_ = pr.Signal(syscall.SIGTERM)
						}
					}
					break
				}
			}
		}
	}
	_ = os.Remove(path)
}

// ---- child -------------------------------------------------------------------------------------

// child <ID> <tier> <seed> <childIdx> <nChildren> <outDir>
func cmdChild(args []string) int {
	id, tier := args[0], args[1]
	seed, _ := strconv.ParseUint(args[2], 10, 64)
	ci, _ := strconv.Atoi(args[3])
	nc, _ := strconv.Atoi(args[4])
	outDir := args[5]
	only := -1
	if len(args) > 6 {
		only, _ = strconv.Atoi(args[6])
	}
	def := checkDefs()[id]
	if def == nil {
		fmt.Println("unknown property", id)
		return 2
	}
	jobs := jobsFor(def, tier)
	out, err := os.OpenFile(filepath.Join(outDir, fmt.Sprintf("reports-%d.jsonl", ci)), os.O_CREATE|os.O_WRONLY|os.O_APPEND, 0o644)
	must(err)
	defer out.Close()
	w := NewWorld()
	for j, job := range jobs {
		if only >= 0 {
			if j != only {
				continue
			}
		} else if j%nc != ci {
			continue
		}
		// announce before executing: a fatal runtime error kills only this child and the parent knows where
		cur := filepath.Join(outDir, fmt.Sprintf("current-%d", ci))
		_ = os.WriteFile(cur, []byte(strconv.Itoa(j)), 0o644)
		rep := RunHistory(w, def, job.Profile, seed, job.Index, tier, filepath.Join(outDir, fmt.Sprintf("hist-%d.jsonl", ci)))
		if len(rep.Viol) > 0 {
			dir := filepath.Join(verifDir, "replays", id)
			_ = os.MkdirAll(dir, 0o755)
			p := filepath.Join(dir, fmt.Sprintf("%s-s%d-i%d.json", job.Profile, seed, job.Index))
			rep.runner.Hist.Note = rep.Viol[0].Assert + ": " + rep.Viol[0].Msg
			_ = rep.runner.Hist.Save(p)
			rep.Replay = p
			// shrink the witness (bounded effort); the full history is kept next to it
			if minp := shrinkHistory(w, def, rep.runner.Hist, rep.Viol[0].Assert, strings.TrimSuffix(p, ".json")+".min.json", 45*time.Second); minp != "" {
				rep.Replay = minp
			}
		}
		if kd := os.Getenv("VMON_SAVE_KNOWN"); kd != "" && len(rep.Viol) == 0 {
			// collecting witnesses of recorded findings (tooling only; never used by a registered check)
			_ = os.MkdirAll(kd, 0o755)
			for _, kh := range rep.Known {
				p := filepath.Join(kd, fmt.Sprintf("%s-%s.json", kh.Prop, kh.Cause))
				if st, err := os.Stat(p); err == nil && st.Size() > 0 {
					if old, err := LoadHistory(p); err == nil && len(old.Steps) <= len(rep.runner.Hist.Steps) {
						continue
					}
				}
				rep.runner.Hist.Note = "witness of recorded finding " + kh.Prop + "/" + kh.Cause + ": " + kh.Msg
				_ = rep.runner.Hist.Save(p)
			}
		}
		b, _ := json.Marshal(rep)
		out.Write(append(b, '\n'))
		_ = os.Remove(cur)
	}
	return 0
}

// RunHistory generates and executes one history under the monitors of def.
func RunHistory(w *World, def *CheckDef, profName string, seed uint64, idx int, tier string, logPath string) *Report {
	start := time.Now()
	prof := profiles()[profName]
	if prof == nil {
		panic("unknown profile " + profName)
	}
	rep := NewReport(def.Prop, profName, idx)
	g := NewGen(seed, idx, prof)
	cfg := g.Config()
	if def.Tweak != nil {
		def.Tweak(g, &cfg)
	}
	var prefix []Step
	if idx < len(def.Scripts) {
		if sc := scripts()[def.Scripts[idx]]; sc != nil {
			prefix = sc(g, &cfg)
		}
	}
	r := NewRunner(w, cfg, rep)
	rep.runner = r
	g.R = r
	r.Hist = &History{Property: def.Prop, Profile: profName, Seed: seed, Index: idx, Config: cfg}
	r.Mons = def.Mons(r)
	if def.ProbeEvery > 0 {
		r.ProbeEvery = def.ProbeEvery
		if tier == "thorough" {
			r.ProbeEvery = 1
		}
	}
	r.Hist.ProbeEvery = r.ProbeEvery
	g.queue = prefix
	var logf *bufio.Writer
	if logPath != "" {
		f, err := os.OpenFile(logPath, os.O_CREATE|os.O_WRONLY|os.O_TRUNC, 0o644)
		if err == nil {
			defer f.Close()
			logf = bufio.NewWriter(f)
			hb, _ := json.Marshal(r.Hist)
			logf.Write(append(hb, '\n'))
			logf.Flush()
		}
	}
	ops := 0
	func() {
		defer func() {
			if p := recover(); p != nil {
				rep.Violate(def.Prop, def.Prop+".harness-panic", r.Idx, "panic while executing/monitoring step %d: %v [%s]", r.Idx, p, shortStack())
				// a panic in the monitor itself is a harness problem, not a verdict about the code
				if !strings.Contains(shortStack(), "x/alliance") {
					rep.Viol = nil
					rep.Inconclusive(fmt.Sprintf("harness panic: %v", p))
				}
			}
		}()
		for g.blocks < prof.Blocks && !r.Halt {
			s := g.Next(&ops)
			if logf != nil {
				sb, _ := json.Marshal(s)
				logf.Write(append(sb, '\n'))
				logf.Flush()
			}
			r.Step(s)
		}
		if !r.Halt {
			r.Finish()
		}
	}()
	rep.Steps = r.Idx
	for _, m := range r.Mons {
		if c, ok := m.(*MonC19); ok {
			hb, _ := json.Marshal(r.Hist.Steps)
			sum := sha256.Sum256([]byte(strings.Join(c.Digests, "\n") + string(hb)))
			rep.Digest = hex.EncodeToString(sum[:])
		}
	}
	if def.Replays > 0 && len(rep.Viol) == 0 && len(rep.Inconcl) == 0 && os.Getenv("VMON_FIRST_RUN_ONLY") == "" {
		compareReplays(w, def, r, rep)
	}
	rep.WallMs = time.Since(start).Milliseconds()
	if len(rep.Samples) == 0 && len(r.Hist.Steps) > 0 {
		n := min(len(r.Hist.Steps), 12)
		rep.Sample(map[string]any{"profile": profName, "index": idx, "first_steps": r.Hist.Steps[:n], "total_steps": len(r.Hist.Steps)})
	}
	return rep
}

// ---- replay ------------------------------------------------------------------------------------

func cmdReplay(args []string) int {
	if len(args) < 1 {
		fmt.Println("usage: vmon replay <file> [ID]")
		return 2
	}
	h, err := LoadHistory(args[0])
	if err != nil {
		fmt.Println("cannot load history:", err)
		return 2
	}
	id := h.Property
	if len(args) > 1 {
		id = args[1]
	}
	def := checkDefs()[id]
	if def == nil {
		fmt.Println("unknown property", id)
		return 2
	}
	rep := ReplayHistory(NewWorld(), def, h, os.Getenv("VMON_TRACE") != "")
	for _, k := range sortedKeys(rep.Known) {
		fmt.Printf("KNOWN-FINDING: property=%s %s: %s\n", rep.Known[k].Prop, rep.Known[k].Cause, rep.Known[k].Msg)
	}
	if len(rep.Viol) > 0 {
		for _, v := range rep.Viol {
			fmt.Printf("violated %s at step %d: %s\n", v.Assert, v.Step, v.Msg)
		}
		fmt.Printf("VIOLATION property=%s replay=%s\n", id, args[0])
		return 1
	}
	if len(rep.Inconcl) > 0 {
		fmt.Printf("INCONCLUSIVE: %v\n", rep.Inconcl)
		return 2
	}
	fmt.Printf("replay of %s: property %s held on %d steps (%d oracle evaluations)\n", args[0], id, rep.Steps, sumMap(rep.Evals))
	return 0
}

func ReplayHistory(w *World, def *CheckDef, h *History, trace bool) *Report {
	rep := NewReport(def.Prop, h.Profile, h.Index)
	r := NewRunner(w, h.Config, rep)
	rep.runner = r
	r.Mons = def.Mons(r)
	if h.ProbeEvery > 0 {
		r.ProbeEvery = h.ProbeEvery
	}
	r.Hist = &History{Property: def.Prop, Profile: h.Profile, Seed: h.Seed, Index: h.Index, Config: h.Config}
	func() {
		defer func() {
			if p := recover(); p != nil {
				rep.Inconclusive(fmt.Sprintf("harness panic: %v %s", p, shortStack()))
				if trace {
					fmt.Println(string(debug.Stack()))
				}
			}
		}()
		for _, s := range h.Steps {
			if r.Halt {
				break
			}
			dump := trace && os.Getenv("VMON_DUMP") == strconv.Itoa(r.Idx)
			if dump {
				fmt.Println("--- before step", r.Idx)
				DumpSnap(w, r.Cur)
			}
			r.Step(s)
			if trace {
				fmt.Printf("step %d %s -> %s\n", r.Idx-1, s, r.LastRes)
			}
			if dump {
				fmt.Println("--- after step", r.Idx-1)
				DumpSnap(w, r.Cur)
			}
		}
		if !r.Halt {
			r.Finish()
		}
	}()
	rep.Steps = r.Idx
	return rep
}

func sumMap(m map[string]int) int {
	n := 0
	for _, v := range m {
		n += v
	}
	return n
}

// ---- parent ------------------------------------------------------------------------------------

func cmdCheck(id, tier string) int {
	start := time.Now()
	def := checkDefs()[id]
	if def == nil {
		fmt.Println("unknown property", id)
		return 2
	}
	if tier != "quick" && tier != "thorough" {
		fmt.Println("tier must be quick or thorough")
		return 2
	}
	seed := envSeed()
	jobs := jobsFor(def, tier)
	nc := runtime.NumCPU()
	if s := os.Getenv("VMON_PROCS"); s != "" {
		if n, err := strconv.Atoi(s); err == nil && n > 0 {
			nc = n
		}
	}
	if nc > len(jobs) {
		nc = len(jobs)
	}
	outDir, err := os.MkdirTemp(filepath.Join(verifDir, "work"), id+"-"+tier+"-")
	if err != nil {
		_ = os.MkdirAll(filepath.Join(verifDir, "work"), 0o755)
		outDir, err = os.MkdirTemp(filepath.Join(verifDir, "work"), id+"-"+tier+"-")
		must(err)
	}
	defer os.RemoveAll(outDir)
	self, _ := os.Executable()
	watchdog := def.Watchdog(tier)
	var wg sync.WaitGroup
	var mu sync.Mutex
	var inconclusive []string
	crashJobs := map[int]bool{}
	runChild := func(ci int, only int) {
		defer wg.Done()
		args := []string{"child", id, tier, strconv.FormatUint(seed, 10), strconv.Itoa(ci), strconv.Itoa(nc), outDir}
		if only >= 0 {
			args = append(args, strconv.Itoa(only))
		}
		cmd := exec.Command(self, args...)
		logf, _ := os.Create(filepath.Join(outDir, fmt.Sprintf("child-%d-%d.log", ci, only)))
		cmd.Stdout = logf
		cmd.Stderr = logf
		cmd.Env = append(os.Environ(), "VERIF_DIR="+verifDir)
		if err := cmd.Start(); err != nil {
			mu.Lock()
			inconclusive = append(inconclusive, "cannot start child: "+err.Error())
			mu.Unlock()
			return
		}
		done := make(chan error, 1)
		go func() { done <- cmd.Wait() }()
		select {
		case err := <-done:
			if err != nil {
				cur, e2 := os.ReadFile(filepath.Join(outDir, fmt.Sprintf("current-%d", ci)))
				mu.Lock()
				if e2 == nil {
					j, _ := strconv.Atoi(string(cur))
					if only >= 0 {
						crashJobs[j] = true
					} else {
						crashJobs[j] = false
					}
				} else {
					inconclusive = append(inconclusive, fmt.Sprintf("child %d died: %v", ci, err))
				}
				mu.Unlock()
			}
		case <-time.After(watchdog):
			_ = cmd.Process.Kill()
			mu.Lock()
			inconclusive = append(inconclusive, fmt.Sprintf("watchdog (%s) fired for child %d", watchdog, ci))
			mu.Unlock()
		}
		logf.Close()
	}
	for ci := 0; ci < nc; ci++ {
		wg.Add(1)
		go runChild(ci, -1)
	}
	wg.Wait()
	// a child that died mid-history: rerun that history alone; the remaining histories of that child too
	if len(crashJobs) > 0 {
		var crashed []int
		for j := range crashJobs {
			crashed = append(crashed, j)
		}
		sort.Ints(crashed)
		for _, j := range crashed {
			ci := j % nc
			wg.Add(1)
			runChild(ci, j)
			// continue the rest of that child's range
			for k := j + nc; k < len(jobs); k += nc {
				wg.Add(1)
				runChild(ci, k)
			}
		}
	}
	// C19: a sample of the histories is executed once more, each in a process of its own, and must produce the
	// same digest as in the process that had executed other histories before it: state that outlives a history
	// outside the store (package variables, caches keyed by height, ...) makes the two differ
	freshDigest := map[string]string{}
	if id == "C19" && len(crashJobs) == 0 {
		freshDir := filepath.Join(outDir, "fresh")
		_ = os.MkdirAll(freshDir, 0o755)
		var fw sync.WaitGroup
		sem := make(chan struct{}, nc)
		for j := range jobs {
			if j < nc || (j/nc)%3 != 1 {
				continue // only histories that were not the first one of their process; about a third of them
			}
			fw.Add(1)
			sem <- struct{}{}
			go func(j int) {
				defer fw.Done()
				defer func() { <-sem }()
				cmd := exec.Command(self, "child", id, tier, strconv.FormatUint(seed, 10), strconv.Itoa(j), strconv.Itoa(nc), freshDir, strconv.Itoa(j))
				cmd.Env = append(os.Environ(), "VMON_FIRST_RUN_ONLY=1")
				done := make(chan error, 1)
				_ = cmd.Start()
				go func() { done <- cmd.Wait() }()
				select {
				case <-done:
				case <-time.After(watchdog):
					_ = cmd.Process.Kill()
				}
			}(j)
		}
		fw.Wait()
		ff, _ := filepath.Glob(filepath.Join(freshDir, "reports-*.jsonl"))
		for _, f := range ff {
			fh, err := os.Open(f)
			if err != nil {
				continue
			}
			sc := bufio.NewScanner(fh)
			sc.Buffer(make([]byte, 1<<20), 1<<28)
			for sc.Scan() {
				var rep Report
				if json.Unmarshal(sc.Bytes(), &rep) == nil && rep.Digest != "" {
					freshDigest[fmt.Sprintf("%s/%d", rep.Profile, rep.Index)] = rep.Digest
				}
			}
			fh.Close()
		}
	}
	sum := NewSummary()
	seen := map[string]bool{}
	files, _ := filepath.Glob(filepath.Join(outDir, "reports-*.jsonl"))
	sort.Strings(files)
	for _, f := range files {
		fh, err := os.Open(f)
		if err != nil {
			continue
		}
		sc := bufio.NewScanner(fh)
		sc.Buffer(make([]byte, 1<<20), 1<<28)
		for sc.Scan() {
			var rep Report
			if json.Unmarshal(sc.Bytes(), &rep) != nil {
				continue
			}
			k := fmt.Sprintf("%s/%d", rep.Profile, rep.Index)
			if seen[k] {
				continue
			}
			seen[k] = true
			if fd, ok := freshDigest[k]; ok && rep.Digest != "" && len(rep.Viol) == 0 {
				rep.Evals["C19.cross-process"]++
				rep.Classes["C19.rerun-in-fresh-process"]++
				if fd != rep.Digest {
					p := filepath.Join(verifDir, "replays", id, fmt.Sprintf("crossproc-%s-s%d-i%d.txt", rep.Profile, seed, rep.Index))
					_ = os.MkdirAll(filepath.Dir(p), 0o755)
					_ = os.WriteFile(p, []byte(fmt.Sprintf("history %s (seed %d) produced digest %s in a process that had executed other histories before it and %s in a process of its own; reproduce: vmon check C19 %s with VERIF_SEED=%d\n", k, seed, rep.Digest, fd, tier, seed)), 0o644)
					rep.Viol = append(rep.Viol, Violation{Prop: "C19", Assert: "C19.cross-process", Step: 0, Msg: fmt.Sprintf("history %s gives different results, events or state in a process of its own (%s) than after other histories in the same process (%s): something outside the store survives from one execution to the next", k, fd[:16], rep.Digest[:16])})
					rep.Replay = p
				}
			}
			sum.Add(&rep)
		}
		fh.Close()
	}
	// committed witnesses of the recorded findings of this property (findings/<ID>-<cause>.json) are re-executed
	// on the current tree: each listed finding is shown against the real code on every run, and a finding that
	// no longer reproduces (repaired upstream) is reported as such instead of being assumed
	generated := sum.Histories
	witnessNotes := replayWitnesses(id, sum)
	crashViol := []string{}
	for j, twice := range crashJobs {
		if twice {
			job := jobs[j]
			if !seen[fmt.Sprintf("%s/%d", job.Profile, job.Index)] {
				// died twice on the same history: that history is the witness
				src := filepath.Join(outDir, fmt.Sprintf("hist-%d.jsonl", j%nc))
				dir := filepath.Join(verifDir, "replays", id)
				_ = os.MkdirAll(dir, 0o755)
				dst := filepath.Join(dir, fmt.Sprintf("crash-%s-s%d-i%d.jsonl", job.Profile, seed, job.Index))
				if b, err := os.ReadFile(src); err == nil {
					_ = os.WriteFile(dst, b, 0o644)
				}
				crashViol = append(crashViol, dst)
			}
		}
	}
	if generated < len(jobs) && len(crashViol) == 0 {
		inconclusive = append(inconclusive, fmt.Sprintf("only %d of %d histories reported", generated, len(jobs)))
	}
	inconclusive = append(inconclusive, sum.Inconcl...)

	// required observations: a run that observed nothing is not a pass
	var missing []string
	for _, req := range def.Required {
		n := 0
		for k, v := range sum.Classes {
			if strings.Contains(k, req) {
				n += v
			}
		}
		if n == 0 {
			missing = append(missing, req)
		}
	}
	sort.Strings(missing)

	known := loadKnownFindings()
	exit := 0
	var unlisted []string
	for _, k := range sortedKeys(sum.Known) {
		h := sum.Known[k]
		if known.Open(h.Prop, h.Cause) {
			fmt.Printf("KNOWN-FINDING: property=%s %s: %s (observed %d times)\n", h.Prop, h.Cause, h.Msg, h.Count)
		} else {
			unlisted = append(unlisted, k)
		}
	}
	nviol := len(sum.Viol) + len(crashViol) + len(unlisted)
	for i, v := range sum.Viol {
		fmt.Printf("violated %s at step %d: %s\n", v.Assert, v.Step, v.Msg)
		fmt.Printf("VIOLATION property=%s replay=%s\n", id, sum.Replays[i])
		exit = 1
		if i >= 9 {
			fmt.Printf("(%d further violations not printed)\n", len(sum.Viol)-10)
			break
		}
	}
	for _, p := range crashViol {
		fmt.Printf("VIOLATION property=%s replay=%s\n", id, p)
		exit = 1
	}
	for _, k := range unlisted {
		h := sum.Known[k]
		fmt.Printf("violated %s (cause %s is not an open entry of known_findings.json): %s\n", h.Prop, h.Cause, h.Msg)
		fmt.Printf("VIOLATION property=%s replay=%s\n", id, filepath.Join(verifDir, "known_findings.json"))
		exit = 1
	}
	if id == "C19" && tier == "thorough" && exit == 0 {
		if rv, note := raceRun(seed, sum); rv != "" {
			fmt.Printf("violated C19.race: %s\n", note)
			fmt.Printf("VIOLATION property=C19 replay=%s\n", rv)
			exit = 1
			nviol++
		} else if note != "" {
			inconclusive = append(inconclusive, note)
		}
	}
	writeEvidence(id, tier, seed, def, sum, time.Since(start).Seconds(), nviol, missing, inconclusive)
	if exit == 0 && (len(inconclusive) > 0 || len(missing) > 0) {
		for _, s := range inconclusive {
			fmt.Println("INCONCLUSIVE:", s)
		}
		for _, s := range missing {
			fmt.Println("INCONCLUSIVE: required observation never made:", s)
		}
		exit = 2
	}
	for _, n := range witnessNotes {
		fmt.Println("NOTE:", n)
	}
	if exit == 0 {
		fmt.Printf("%s %s: held on %d histories, %d steps, %d oracle evaluations, %d distinct situation classes (seed %d, %.1fs)\n", id, tier, sum.Histories, sum.Steps, sum.TotalEvals(), len(sum.Classes), seed, time.Since(start).Seconds())
	}
	return exit
}

// replayWitnesses re-executes findings/<id>-*.json under the property's monitors and merges the reports
// into the summary (profile "witness"). A violation raised by a witness is a violation like any other.
func replayWitnesses(id string, sum *Summary) []string {
	files, _ := filepath.Glob(filepath.Join(verifDir, "findings", id+"-*.json"))
	sort.Strings(files)
	if len(files) == 0 {
		return nil
	}
	def := checkDefs()[id]
	w := NewWorld()
	var notes []string
	for i, f := range files {
		h, err := LoadHistory(f)
		if err != nil || h.Property != id {
			notes = append(notes, "witness "+f+" unreadable")
			continue
		}
		cause := strings.TrimSuffix(strings.TrimPrefix(filepath.Base(f), id+"-"), ".json")
		rep := ReplayHistory(w, def, h, false)
		rep.Profile, rep.Index = "witness", i
		rep.Classes["witness."+cause] = 1
		if len(rep.Viol) > 0 {
			rep.Replay = f
		}
		if rep.Known[id+"/"+cause] == nil && len(rep.Viol) == 0 {
			notes = append(notes, fmt.Sprintf("recorded finding %s/%s did not reproduce on its committed witness %s", id, cause, f))
			rep.Classes["witness-not-reproduced."+cause] = 1
		} else {
			rep.Classes["witness-reproduced."+cause] = 1
		}
		rep.runner = nil
		sum.Add(rep)
	}
	return notes
}

// ---- evidence ----------------------------------------------------------------------------------

func writeEvidence(id, tier string, seed uint64, def *CheckDef, sum *Summary, wall float64, nviol int, missing, inconclusive []string) {
	cov := map[string]any{
		"evaluations":         sum.TotalEvals(),
		"distinct_nontrivial": len(sum.Classes),
		"rule":                def.Rule,
		"samples":             sum.Samples,
		"histories":           sum.Histories,
		"steps":               sum.Steps,
		"assertions":          sum.Evals,
		"situation_classes":   sum.Classes,
		"operations":          sum.Counts,
		"exhaustive":          false,
	}
	if len(sum.Samples) == 0 {
		cov["samples"] = []any{"no history completed"}
	}
	var kf []any
	for _, k := range sortedKeys(sum.Known) {
		kf = append(kf, sum.Known[k])
	}
	cov["known_findings_observed"] = kf
	if len(missing) > 0 {
		cov["required_observations_missing"] = missing
	}
	if len(inconclusive) > 0 {
		cov["inconclusive"] = inconclusive
	}
	ev := map[string]any{
		"property_id": id,
		"tier":        tier,
		"seed":        int64(seed),
		"level":       "exploration",
		"coverage":    cov,
		"assumptions": def.Assumptions,
		"wall_s":      wall,
		"violations":  nviol,
	}
	b, _ := json.MarshalIndent(ev, "", " ")
	_ = os.MkdirAll(filepath.Join(verifDir, "evidence"), 0o755)
	_ = os.WriteFile(filepath.Join(verifDir, "evidence", id+".json"), b, 0o644)
}

// ---- known findings ----------------------------------------------------------------------------

type KnownEntry struct {
	Property    string `json:"property"`
	Cause       string `json:"cause"`
	Status      string `json:"status"` // open | fixed
	Commit      string `json:"commit,omitempty"`
	Description string `json:"description"`
	Witness     string `json:"witness,omitempty"`
}

type KnownFile struct {
	Findings []KnownEntry `json:"findings"`
}

func loadKnownFindings() *KnownFile {
	var kf KnownFile
	b, err := os.ReadFile(filepath.Join(verifDir, "known_findings.json"))
	if err == nil {
		_ = json.Unmarshal(b, &kf)
	}
	return &kf
}

func (k *KnownFile) Open(prop, cause string) bool {
	for _, e := range k.Findings {
		if e.Property == prop && e.Cause == cause && e.Status == "open" {
			return true
		}
	}
	return false
}

// DumpSnap prints a compact rendering of the alliance-relevant state (debugging aid for replays).
func DumpSnap(w *World, s *Snap) {
	fmt.Printf("  time %s height %d flag %v params{ivl %s last %s delay %s}\n", s.Time.Format(time.RFC3339Nano), s.Height, s.Flag, s.Params.TakeRateClaimInterval, s.Params.LastTakeRateClaimTime.Format(time.RFC3339Nano), s.Params.RewardDelayTime)
	for _, d := range s.AssetOrder {
		a := s.Assets[d]
		fmt.Printf("  asset %s TT %s TVS %s w %s [%s,%s] take %s start %s rate %s ivl %s last %s init %v\n", d, a.TotalTokens, a.TotalValidatorShares, a.RewardWeight, a.RewardWeightRange.Min, a.RewardWeightRange.Max, a.TakeRate, a.RewardStartTime.Format(time.RFC3339Nano), a.RewardChangeRate, a.RewardChangeInterval, a.LastRewardChangeTime.Format(time.RFC3339Nano), a.IsInitialized)
	}
	for _, vo := range s.ValOrder {
		v := s.Vals[vo]
		fmt.Printf("  val %s status %s jailed %v tokens %s modTokens %s delShares %v valShares %v\n", w.Name(vo), v.Status, v.Jailed, v.Tokens, ratStr(v.ModTokens), v.Info.TotalDelegatorShares, v.Info.ValidatorShares)
	}
	for _, pk := range s.DelOrder {
		d := s.Dels[pk]
		fmt.Printf("  del %s %s %s shares %s value %s\n", w.Name(pk.Del), w.Name(pk.Val), pk.Denom, d.Shares, ratStr(s.Value(pk)))
	}
	for _, b := range s.Unb {
		for _, e := range b.Entries {
			fmt.Printf("  unb %s %s %s %s at %s\n", w.Name(e.Del), w.Name(e.Val), e.Denom, e.Amount, b.Completion.Format(time.RFC3339Nano))
		}
	}
	for _, r := range s.Redels {
		fmt.Printf("  redel %s %s->%s %s %s at %s\n", w.Name(r.Del), w.Name(r.Src), w.Name(r.Dst), r.Denom, r.Amount, r.Completion.Format(time.RFC3339Nano))
	}
	for _, a := range sortedKeys(s.Bal) {
		fmt.Printf("  bal %s %s\n", w.Name(a), s.Bal[a])
	}
	fmt.Printf("  supply %s\n", s.Supply)
	if os.Getenv("VMON_ALLBAL") != "" {
		w.App.BankKeeper.IterateAllBalances(w.Ctx, func(a sdk.AccAddress, c sdk.Coin) bool {
			if _, ok := s.Bal[a.String()]; !ok && c.Denom == os.Getenv("VMON_ALLBAL") {
				fmt.Printf("  other holder %s %s\n", a, c)
			}
			return false
		})
	}
}

// compareReplays (C19): replay the explicit history on sibling branches and compare the digests.
func compareReplays(w *World, def *CheckDef, r *Runner, rep *Report) {
	var first []string
	for _, m := range r.Mons {
		if c, ok := m.(*MonC19); ok {
			first = c.Digests
		}
	}
	hist := r.Hist
	for k := 0; k < def.Replays; k++ {
		rep2 := NewReport(def.Prop, hist.Profile, hist.Index)
		r2 := NewRunner(w, hist.Config, rep2)
		rep2.runner = r2
		mon := NewMonC19(r2)
		r2.Mons = []Monitor{mon}
		r2.ProbeEvery = 0
		r2.Ghost = k%2 == 0 // every other replay is interleaved with discarded-branch executions of each step
		func() {
			defer func() {
				if p := recover(); p != nil {
					rep.Inconclusive(fmt.Sprintf("replay panicked: %v", p))
				}
			}()
			for i, s := range hist.Steps {
				if r2.Halt {
					break
				}
				if r2.Ghost {
					r2.GhostNext = hist.Steps[i+1:]
				}
				r2.Step(s)
			}
			if !r2.Halt {
				r2.Finish()
			}
		}()
		rep.Eval("C19.replay-compare")
		n := min(len(first), len(mon.Digests))
		for i := 0; i < n; i++ {
			rep.Eval("C19.digest")
			if first[i] != mon.Digests[i] {
				rep.Violate("C19", "C19.digest", i, "replay %d of the same history on a sibling branch diverges at record %d: first run %q, replay %q", k+1, i, first[i], mon.Digests[i])
				return
			}
		}
		if len(first) != len(mon.Digests) {
			rep.Violate("C19", "C19.digest", n, "replay %d produced %d records, the first run %d", k+1, len(mon.Digests), len(first))
			return
		}
		rep.Class("C19.replays-compared")
		if r2.Ghost {
			rep.Class("C19.replay-with-ghost-branches")
			rep.Count("C19.ghost-executions", rep2.Counts["C19.ghost-executions"])
		}
	}
}

// raceRun builds the monitor with the race detector and runs histories concurrently in separate app
// instances; returns a witness path when the detector reports a race with alliance frames or the
// instances diverge, and an inconclusive note when the race build is unavailable.
func raceRun(seed uint64, sum *Summary) (string, string) {
	bin := filepath.Join(verifDir, "bin", "vmon-race")
	build := exec.Command("go", "build", "-race", "-tags", "verif", "-o", bin, ".")
	build.Dir = filepath.Join(verifDir, "vmon")
	build.Env = append(os.Environ(), "GOFLAGS=-mod=mod", "GOPROXY=off", "GOSUMDB=off", "GOTOOLCHAIN=local", "CGO_ENABLED=1")
	if out, err := build.CombinedOutput(); err != nil {
		return "", fmt.Sprintf("race build failed: %v %.300s", err, out)
	}
	dir := filepath.Join(verifDir, "work", "race")
	_ = os.RemoveAll(dir)
	_ = os.MkdirAll(dir, 0o755)
	outJSON := filepath.Join(dir, "race.json")
	cmd := exec.Command(bin, "race", "8", "6", strconv.FormatUint(seed, 10), outJSON)
	cmd.Env = append(os.Environ(), "GORACE=halt_on_error=0 log_path="+filepath.Join(dir, "race.log"))
	out, err := cmd.CombinedOutput()
	if err != nil {
		return "", fmt.Sprintf("race run failed: %v %.300s", err, out)
	}
	var ro raceOut
	b, _ := os.ReadFile(outJSON)
	_ = json.Unmarshal(b, &ro)
	logs, _ := filepath.Glob(filepath.Join(dir, "race.log*"))
	reports, alliance := 0, 0
	var sample string
	for _, l := range logs {
		lb, _ := os.ReadFile(l)
		blocks := strings.Split(string(lb), "WARNING: DATA RACE")
		for _, blk := range blocks[1:] {
			reports++
			if strings.Contains(blk, "terra-money/alliance/x/alliance") || strings.Contains(blk, "/repo/x/alliance") || strings.Contains(blk, "/repo/custom") {
				alliance++
				if sample == "" {
					sample = blk
				}
			}
		}
	}
	sum.Counts["race.instances"] = ro.Instances
	sum.Counts["race.histories_per_instance"] = ro.Histories
	sum.Counts["race.steps"] = ro.Steps
	sum.Counts["race.reports_total"] = reports
	sum.Counts["race.reports_with_alliance_frames"] = alliance
	sum.Counts["race.digest_mismatches"] = len(ro.Mismatches)
	sum.Evals["C19.race-detector"] += ro.Steps
	sum.Classes["C19.race-run"]++
	if alliance > 0 || len(ro.Mismatches) > 0 || len(ro.Panics) > 0 {
		wit := filepath.Join(verifDir, "replays", "C19", "race-witness.txt")
		_ = os.MkdirAll(filepath.Dir(wit), 0o755)
		_ = os.WriteFile(wit, []byte(fmt.Sprintf("mismatches: %v\npanics: %v\nfirst race report with alliance frames:\n%s\n", ro.Mismatches, ro.Panics, sample)), 0o644)
		return wit, fmt.Sprintf("%d race reports with alliance frames, %d digest mismatches between instances running the same histories, %d panics", alliance, len(ro.Mismatches), len(ro.Panics))
	}
	return "", ""
}

// shrinkHistory: delta-debugging over the steps, keeping the violated assertion fixed; bounded by a wall
// clock budget that only limits the effort (the unshrunk witness stays valid whatever happens here).
func shrinkHistory(w *World, def *CheckDef, h *History, target, out string, budget time.Duration) string {
	deadline := time.Now().Add(budget)
	violates := func(steps []Step) bool {
		hh := *h
		hh.Steps = steps
		rep := ReplayHistory(w, def, &hh, false)
		return len(rep.Viol) > 0 && rep.Viol[0].Assert == target
	}
	steps := append([]Step{}, h.Steps...)
	if !violates(steps) {
		return ""
	}
	for chunk := len(steps) / 2; chunk >= 1 && time.Now().Before(deadline); {
		removed := false
		for i := 0; i+chunk <= len(steps) && time.Now().Before(deadline); {
			cand := append(append([]Step{}, steps[:i]...), steps[i+chunk:]...)
			if violates(cand) {
				steps = cand
				removed = true
			} else {
				i += chunk
			}
		}
		if !removed || chunk > len(steps) {
			chunk /= 2
		}
	}
	hh := *h
	hh.Steps = steps
	hh.Note = "shrunk witness (" + strconv.Itoa(len(steps)) + " of " + strconv.Itoa(len(h.Steps)) + " steps) for " + target + "; full history: " + strings.TrimSuffix(out, ".min.json") + ".json"
	if hh.Save(out) != nil {
		return ""
	}
	return out
}

// cmdWitness: shrink a history while it keeps exhibiting a recorded finding (and no violation).
// usage: vmon witness <history.json> <cause> <out.json>
func cmdWitness(args []string) int {
	if len(args) < 3 {
		fmt.Println("usage: vmon witness <history.json> <cause> <out.json>")
		return 2
	}
	h, err := LoadHistory(args[0])
	if err != nil {
		fmt.Println(err)
		return 2
	}
	def := checkDefs()[h.Property]
	if def == nil {
		return 2
	}
	key := h.Property + "/" + args[1]
	w := NewWorld()
	msg := ""
	shows := func(steps []Step) bool {
		hh := *h
		hh.Steps = steps
		rep := ReplayHistory(w, def, &hh, false)
		if len(rep.Viol) > 0 || len(rep.Inconcl) > 0 || rep.Known[key] == nil {
			return false
		}
		msg = rep.Known[key].Msg
		return true
	}
	if !shows(h.Steps) {
		fmt.Println("the history does not exhibit", key, "on this tree")
		return 1
	}
	deadline := time.Now().Add(4 * time.Minute)
	steps := append([]Step{}, h.Steps...)
	for chunk := len(steps) / 2; chunk >= 1 && time.Now().Before(deadline); {
		removed := false
		for i := 0; i+chunk <= len(steps) && time.Now().Before(deadline); {
			cand := append(append([]Step{}, steps[:i]...), steps[i+chunk:]...)
			if shows(cand) {
				steps = cand
				removed = true
			} else {
				i += chunk
			}
		}
		if !removed || chunk > len(steps) {
			chunk /= 2
		}
	}
	shows(steps)
	hh := *h
	hh.Steps = steps
	hh.Note = "witness of recorded finding " + key + " (" + strconv.Itoa(len(steps)) + " steps, shrunk from " + strconv.Itoa(len(h.Steps)) + "): " + msg
	if err := hh.Save(args[2]); err != nil {
		fmt.Println(err)
		return 2
	}
	fmt.Printf("%s: %d -> %d steps: %s\n", key, len(h.Steps), len(steps), msg)
	return 0
}

// cmdShrink: delta-debugging over the steps of a witness history, keeping the violated assertion fixed.
// usage: vmon shrink <witness.json> [out.json]
func cmdShrink(args []string) int {
	h, err := LoadHistory(args[0])
	if err != nil {
		fmt.Println(err)
		return 2
	}
	def := checkDefs()[h.Property]
	if def == nil {
		return 2
	}
	w := NewWorld()
	violates := func(steps []Step) string {
		hh := *h
		hh.Steps = steps
		rep := ReplayHistory(w, def, &hh, false)
		if len(rep.Viol) > 0 {
			return rep.Viol[0].Assert
		}
		return ""
	}
	target := violates(h.Steps)
	if target == "" {
		fmt.Println("the history does not violate its property on this tree")
		return 0
	}
	steps := append([]Step{}, h.Steps...)
	for chunk := len(steps) / 2; chunk >= 1; {
		removed := false
		for i := 0; i+chunk <= len(steps); {
			cand := append(append([]Step{}, steps[:i]...), steps[i+chunk:]...)
			if violates(cand) == target {
				steps = cand
				removed = true
			} else {
				i += chunk
			}
		}
		if !removed || chunk > len(steps) {
			chunk /= 2
		}
	}
	h.Steps = steps
	out := strings.TrimSuffix(args[0], ".json") + ".min.json"
	if len(args) > 1 {
		out = args[1]
	}
	h.Note = "shrunk witness for " + target
	_ = h.Save(out)
	fmt.Printf("shrunk to %d steps (assertion %s): %s\n", len(steps), target, out)
	return 0
}

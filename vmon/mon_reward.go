package main

// mon_reward.go — reward shadow (entitlement at receipt), C13 reward entitlement, C12 pool solvency.

import (
	abcitypes "github.com/cometbft/cometbft/abci/types"
	"fmt"
	"math/big"
	"os"
	"sort"
	"strings"
	"time"

	"cosmossdk.io/math"
	sdk "github.com/cosmos/cosmos-sdk/types"

	"github.com/terra-money/alliance/x/alliance/types"
)

// RewardShadow: every withdraw_rewards(delegator = alliance module, validator = V, amount = W) seen in a
// step's event log is attributed, from the eager pre-step snapshot, to the started assets staked on V
// by rewardWeight x (tokens on V / asset total), normalised, and inside an asset pro rata to the exact
// value of each position. E = accumulated exact entitlement since the position's last settlement;
// Q = entitlement per unit of position value (what an index difference measures): the implemented
// "index x current tokens" rule pays Q x value_now, which differs from E when values changed since.
type RewardShadow struct {
	R        *Runner
	E        map[PosKey]map[string]*big.Rat
	Q        map[PosKey]map[string]*big.Rat
	N        map[PosKey]int  // receipts since last settlement
	FracErr  map[PosKey]*big.Rat // largest 18-digit relative error of the validator's token value (1e-18 / (vs/tvs)) at a receipt
	Vmin, Vmax map[PosKey]*big.Rat // exact value of the position at the receipts since last settlement
	Taint    map[PosKey]string // value-changing event since accrual: claim only bounded (C12's domain)
	lastIdx  int
	lastClaims []claimObs
	Received sdk.Coins // total forwarded to the pool (mod -> pool)
	Paid     sdk.Coins // total paid by the pool
	Stranded sdk.Coins
	OverRounder map[string]*big.Rat // the part of Overpaid explained by claims that used a rounded-up reported value
	OverRound map[string]*big.Rat // the part of Overpaid that lies within the 18-digit resolution (index round-up)
	Overpaid map[string]*big.Rat // per reward denom: what claims of value-changed positions were paid beyond their exact entitlement
}

func (r *Runner) rewardShadow() *RewardShadow {
	if r.Rw == nil {
		r.Rw = &RewardShadow{R: r, E: map[PosKey]map[string]*big.Rat{}, Q: map[PosKey]map[string]*big.Rat{}, N: map[PosKey]int{}, FracErr: map[PosKey]*big.Rat{}, Vmin: map[PosKey]*big.Rat{}, Vmax: map[PosKey]*big.Rat{}, Taint: map[PosKey]string{}, lastIdx: -1, Received: sdk.NewCoins(), Paid: sdk.NewCoins(), Stranded: sdk.NewCoins(), Overpaid: map[string]*big.Rat{}, OverRound: map[string]*big.Rat{}, OverRounder: map[string]*big.Rat{}}
	}
	return r.Rw
}

func addTo(m map[PosKey]map[string]*big.Rat, pk PosKey, d string, x *big.Rat) {
	if m[pk] == nil {
		m[pk] = map[string]*big.Rat{}
	}
	if m[pk][d] == nil {
		m[pk][d] = new(big.Rat)
	}
	m[pk][d].Add(m[pk][d], x)
}

// attribute one withdrawal using snapshot s (state at the time of the withdrawal) and block time now.
func (rs *RewardShadow) attribute(s *Snap, now time.Time, val string, W sdk.Coins) {
	v := s.Vals[val]
	if v == nil || !v.HasInfo || len(v.Info.TotalDelegatorShares) == 0 || W.IsZero() {
		return
	}
	type aw struct {
		denom string
		wt    *big.Rat
		tv    *big.Rat
	}
	var aws []aw
	tot := new(big.Rat)
	for _, d := range s.AssetOrder {
		a := s.Assets[d]
		if a.TotalTokens.IsZero() || now.Before(a.RewardStartTime) {
			continue
		}
		tv := s.ValTokens(val, d)
		if tv.Sign() == 0 {
			continue
		}
		wt := new(big.Rat).Mul(ratDec(a.RewardWeight), new(big.Rat).Quo(tv, ratInt(a.TotalTokens)))
		aws = append(aws, aw{d, wt, tv})
		tot.Add(tot, wt)
	}
	if tot.Sign() == 0 {
		return
	}
	for _, x := range aws {
		na := new(big.Rat).Quo(x.wt, tot)
		for _, pk := range s.DelOrder {
			if pk.Val != val || pk.Denom != x.denom {
				continue
			}
			pv := s.Value(pk)
			if pv.Sign() == 0 {
				continue
			}
			rs.N[pk]++
			if a := s.Assets[x.denom]; !a.TotalValidatorShares.IsZero() {
				if vsr := ratDec(decAmount(v.Info.ValidatorShares, x.denom)); vsr.Sign() > 0 {
					fe := new(big.Rat).Quo(ratDec(a.TotalValidatorShares), vsr)
					fe.Mul(fe, big.NewRat(2, 1_000_000_000_000_000_000))
					if rs.FracErr[pk] == nil || fe.Cmp(rs.FracErr[pk]) > 0 {
						rs.FracErr[pk] = fe
					}
				}
			}
			if rs.Vmin[pk] == nil || pv.Cmp(rs.Vmin[pk]) < 0 {
				rs.Vmin[pk] = pv
			}
			if rs.Vmax[pk] == nil || pv.Cmp(rs.Vmax[pk]) > 0 {
				rs.Vmax[pk] = pv
			}
			for _, c := range W {
				perValue := new(big.Rat).Mul(ratInt(c.Amount), na)
				perValue.Quo(perValue, x.tv) // reward per unit of value on (V, asset)
				addTo(rs.Q, pk, c.Denom, perValue)
				addTo(rs.E, pk, c.Denom, new(big.Rat).Mul(perValue, pv))
				if dbg := os.Getenv("VMON_DEBUG_POS"); dbg != "" && strings.Contains(rs.R.W.Name(pk.Del)+","+rs.R.W.Name(pk.Val)+","+pk.Denom, dbg) {
					fmt.Printf("  ATTR step %d %s W=%s on %s asset %s na=%s tv=%s pv=%s -> +%s (E=%s)\n", rs.R.Idx, c.Denom, c.Amount, rs.R.W.Name(val), x.denom, na.FloatString(6), x.tv.FloatString(3), pv.FloatString(3), new(big.Rat).Mul(perValue, pv).FloatString(6), rs.E[pk][c.Denom].FloatString(6))
				}
			}
		}
	}
}

func (rs *RewardShadow) noteOverpaid(pk PosKey, paid sdk.Coins, v *big.Rat) {
	for _, c := range paid {
		e := rs.E[pk][c.Denom]
		if e == nil {
			e = new(big.Rat)
		}
		over := new(big.Rat).Sub(ratInt(c.Amount), e)
		if over.Sign() > 0 {
			if rs.Overpaid[c.Denom] == nil {
				rs.Overpaid[c.Denom] = new(big.Rat)
				rs.OverRound[c.Denom] = new(big.Rat)
			}
			rs.Overpaid[c.Denom].Add(rs.Overpaid[c.Denom], over)
			// the part explained by the 18-digit resolution of the index on this position's tokens and on
			// the reward amounts themselves
			lim := new(big.Rat).Mul(v, big.NewRat(int64(rs.N[pk]+3), 1_000_000_000_000_000_000))
			lim.Add(lim, new(big.Rat).Mul(ratInt(c.Amount), big.NewRat(int64(rs.N[pk]+3)*4, 1_000_000_000_000_000_000)))
			lim.Add(lim, ratI64(1))
			// ... and of the validator's fraction of the asset when the rewards were received (a small fraction vs/tvs
			// has few significant digits at 18 decimals: the index was computed on a token value that is off by
			// that relative error; the same term is part of the resolution budget of unclaimed entitlements)
			if fe := rs.FracErr[pk]; fe != nil {
				if fe.Cmp(ratI64(1)) > 0 {
					fe = ratI64(1)
				}
				lim.Add(lim, new(big.Rat).Mul(ratInt(c.Amount), fe))
			}
			if over.Cmp(lim) <= 0 {
				rs.OverRound[c.Denom].Add(rs.OverRound[c.Denom], over)
			} else if v.Sign() > 0 {
				// rounder-overclaim: the claim used the reported value floor(v + 0.01) > v
				rp := new(big.Rat).Add(v, big.NewRat(1, 100))
				rpi := new(big.Rat).SetInt(ratFloor(rp))
				if rpi.Cmp(v) > 0 {
					rel := new(big.Rat).Quo(new(big.Rat).Sub(rpi, v), v)
					lim2 := new(big.Rat).Mul(ratInt(c.Amount), rel)
					lim2.Add(lim2, lim)
					if over.Cmp(lim2) <= 0 {
						if rs.OverRounder[c.Denom] == nil {
							rs.OverRounder[c.Denom] = new(big.Rat)
						}
						rs.OverRounder[c.Denom].Add(rs.OverRounder[c.Denom], over)
					}
				}
			}
		}
	}
}

func (rs *RewardShadow) settle(pk PosKey) {
	delete(rs.E, pk)
	delete(rs.Q, pk)
	delete(rs.N, pk)
	delete(rs.FracErr, pk)
	delete(rs.Vmin, pk)
	delete(rs.Vmax, pk)
	delete(rs.Taint, pk)
}

func (rs *RewardShadow) ledger(ev *ParsedEvents) {
	w := rs.R.W
	for _, t := range ev.Transfers {
		if t.From == w.ModAddr.String() && t.To == w.PoolAddr.String() {
			rs.Received = rs.Received.Add(t.Coins...)
		}
		if t.From == w.PoolAddr.String() {
			rs.Paid = rs.Paid.Add(t.Coins...)
		}
	}
}

func (rs *RewardShadow) withdrawals(s *Snap, now time.Time, ev *ParsedEvents) {
	mod := rs.R.W.ModAddr.String()
	for _, wd := range ev.Withdraws {
		if wd.Delegator == mod {
			rs.attribute(s, now, wd.Validator, wd.Coins)
		}
	}
}

// ---- step processing (once per step, whoever asks first) -----------------------------------------

type claimObs struct {
	Pos    PosKey
	Coins  sdk.Coins
	E      map[string]*big.Rat
	Q      map[string]*big.Rat
	N      int
	Taint  string
	Vmin, Vmax *big.Rat
	Value  *big.Rat // exact value at claim time
	Exists bool
}

func (rs *RewardShadow) debugIndex(s *Snap, idx int) {
	dbg := os.Getenv("VMON_DEBUG_POS")
	if dbg == "" {
		return
	}
	for _, vo := range s.ValOrder {
		v := s.Vals[vo]
		if !v.HasInfo {
			continue
		}
		for _, h := range v.Info.GlobalRewardHistory {
			key := rs.R.W.Name(vo) + "," + h.Alliance
			if strings.Contains(dbg, key) && h.Denom == "stake" {
				fmt.Printf("  INDEX step %d %s/%s/%s = %s\n", idx, rs.R.W.Name(vo), h.Alliance, h.Denom, h.Index)
			}
		}
	}
}

func (rs *RewardShadow) ProcessTx(o *TxOutcome) []claimObs {
	if rs.lastIdx == o.Idx {
		return rs.lastClaims
	}
	rs.debugIndex(o.Post, o.Idx)
	rs.lastIdx = o.Idx
	rs.lastClaims = nil
	if !o.Res.OK {
		return nil
	}
	rs.ledger(o.Ev)
	rs.withdrawals(o.Pre, o.Pre.Time, o.Ev)
	// claims: explicit or implicit, identified from the typed events (the asset is the step's denom)
	den := o.Step.Den
	// the payouts themselves are x/bank transfers out of the rewards pool; the module's own typed event only says
	// which position each belongs to. If such a transfer has no typed event naming its receiver, the event schema
	// has changed under the monitor: that is not a verdict about the property
	for _, t := range o.Ev.Transfers {
		if t.From != rs.R.W.PoolAddr.String() || t.To != o.Actor {
			continue
		}
		named := false
		for _, c := range o.Ev.Claims {
			if c.Delegator == t.To {
				named = true
			}
		}
		if !named {
			rs.R.Rep.Inconclusive("a payout from the rewards pool to " + rs.R.W.Name(t.To) + " is not accompanied by a ClaimAllianceRewardsEvent naming it (fields allianceSender/validator/coins): the module's event schema differs from what the reward monitors read")
			rs.R.Halt = true
			return nil
		}
	}
	switch o.Step.K {
	case "claim", "delegate", "undelegate", "redelegate":
		for _, c := range o.Ev.Claims {
			pk := PosKey{c.Delegator, c.Validator, den}
			_, existed := o.Pre.Dels[pk]
			obs := claimObs{Pos: pk, Coins: c.Coins, E: rs.E[pk], Q: rs.Q[pk], N: rs.N[pk], Taint: rs.Taint[pk], Vmin: rs.Vmin[pk], Vmax: rs.Vmax[pk], Value: o.Pre.Value(pk), Exists: existed}
			rs.lastClaims = append(rs.lastClaims, obs)
			rs.noteOverpaid(pk, c.Coins, obs.Value)
			if dbg := os.Getenv("VMON_DEBUG_POS"); dbg != "" && strings.Contains(rs.R.W.Name(pk.Del)+","+rs.R.W.Name(pk.Val)+","+pk.Denom, dbg) {
				fmt.Printf("  CLAIM step %d %s pos %s paid %s\n", o.Idx, o.Step.K, dbg, c.Coins)
				if d0, ok := o.Pre.Dels[pk]; ok {
					fmt.Printf("    delegation history before: lastClaimHeight %d %v\n", d0.LastRewardClaimHeight, d0.RewardHistory)
				}
				for _, ws := range o.Pre.Weights {
					if ws.Val == pk.Val && ws.Denom == pk.Denom {
						fmt.Printf("    snapshot height %d prevWeight %s %v\n", ws.Height, ws.Snapshot.PrevRewardWeight, ws.Snapshot.RewardHistories)
					}
				}
			}
			rs.settle(pk)
		}
	}
	// positions that disappeared are settled by definition
	for pk := range rs.E {
		if _, ok := o.Post.Dels[pk]; !ok {
			rs.settle(pk)
		}
	}
	return rs.lastClaims
}

func (rs *RewardShadow) ProcessBlock(o *BlockOutcome) {
	if rs.lastIdx == o.Idx {
		return
	}
	rs.debugIndex(o.PostBeg, o.Idx)
	rs.lastIdx = o.Idx
	rs.lastClaims = nil
	if o.EndRes.Failed() {
		return
	}
	rs.ledger(o.EndEv)
	// in the end-of-block the take-rate deduction precedes every reward claim (weight change, rebalance):
	// receipts are attributed on the pre-state with the already reduced staked totals
	hy := *o.Pre
	hy.Assets = map[string]types.AllianceAsset{}
	for d, a := range o.Pre.Assets {
		if pa, ok := o.PostEnd.Assets[d]; ok {
			a.TotalTokens = pa.TotalTokens
		}
		hy.Assets[d] = a
	}
	rs.withdrawals(&hy, o.Pre.Time, o.EndEv)
	// take-rate deductions change the value of every position of the asset
	for _, d := range o.Pre.AssetOrder {
		if pa, ok := o.PostEnd.Assets[d]; ok && pa.TotalTokens.LT(o.Pre.Assets[d].TotalTokens) {
			for pk := range rs.E {
				if pk.Denom == d && rs.Taint[pk] == "" {
					rs.Taint[pk] = "take-rate"
				}
			}
		}
	}
	rs.ledger(o.BegEv)
	if len(o.Slashes) == 0 {
		rs.withdrawals(o.PostEnd, o.PostBeg.Time, o.BegEv)
		return
	}
	// slashes: value-changing for every position of the slashed validator's assets (factor g elsewhere)
	for _, s := range o.Slashes {
		// rewards claimed inside the callback are received after the bonded part of the slash was applied
		rs.withdrawals(afterBondedSlash(s.Pre, s.Val, s.Fraction), s.Pre.Time, s.Ev)
		assets := map[string]bool{}
		if v := s.Pre.Vals[s.Val]; v != nil && v.HasInfo {
			for _, c := range v.Info.ValidatorShares {
				assets[c.Denom] = true
			}
		}
		// value removed at the destination of a slashed redelegation is redistributed to the other
		// positions on that validator: their values change too
		dsts := map[[2]string]bool{}
		for _, ix := range s.Pre.RedelIndex {
			if ix.Src == s.Val && !ix.Completion.Before(s.Pre.Time) {
				dsts[[2]string{ix.Dst, ix.Denom}] = true
			}
		}
		for pk := range rs.E {
			if assets[pk.Denom] || dsts[[2]string{pk.Val, pk.Denom}] {
				rs.Taint[pk] = "slash"
			}
		}
		// destinations of pending redelegations are claimed inside the callback, in index order
		ci := 0
		for _, ix := range s.Pre.RedelIndex {
			if ix.Src != s.Val || ix.Completion.Before(s.Pre.Time) {
				continue
			}
			pk := PosKey{ix.Del, ix.Dst, ix.Denom}
			a, okA := s.Pre.Assets[ix.Denom]
			if _, ok := s.Pre.Dels[pk]; !ok || !okA || s.Pre.Time.Before(a.RewardStartTime) {
				continue
			}
			if ci < len(s.Ev.Claims) && s.Ev.Claims[ci].Delegator == ix.Del && s.Ev.Claims[ci].Validator == ix.Dst {
				rs.noteOverpaid(pk, s.Ev.Claims[ci].Coins, s.Pre.Value(pk))
				ci++
			}
			rs.settle(pk)
		}
	}
	for pk := range rs.E {
		if _, ok := o.PostBeg.Dels[pk]; !ok {
			rs.settle(pk)
		}
	}
}

// ================================================================================================
// C13
// ================================================================================================

type MonC13 struct {
	BaseMon
	rs *RewardShadow
}

func NewMonC13(r *Runner) *MonC13 {
	r.NeedPending = true
	return &MonC13{BaseMon{r}, r.rewardShadow()}
}
func (m *MonC13) Name() string { return "C13" }

// rho: one staked unit's worth of the reward (the claim uses the reported token value, which may be
// up to one unit below the exact value) plus the resolution of the 18-digit index per receipt.
func rho(E, value *big.Rat, n int, coinsReceivedScale *big.Rat) *big.Rat {
	r := new(big.Rat)
	if value.Cmp(ratI64(1)) >= 0 {
		r.Quo(E, value)
	} else {
		r.Set(E)
	}
	r.Mul(r, big.NewRat(101, 100))
	res := new(big.Rat).Mul(value, big.NewRat(int64(n+1), 1_000_000_000_000_000_000))
	r.Add(r, res)
	return r
}

func (m *MonC13) AfterTx(o *TxOutcome) {
	rep := m.R.Rep
	w := m.R.W
	claims := m.rs.ProcessTx(o)
	if !o.Res.OK {
		return
	}
	if m.R.Sh.TaintedSlash {
		rep.Count("C13.skipped-after-failed-callback", 1)
		return
	}
	k := o.Step.K
	// (1) settle-before-change: a step that changes share amounts on validator V while the module had
	// rewards pending for V must withdraw them in that step
	if k == "delegate" || k == "undelegate" || k == "redelegate" {
		changed := map[string]bool{}
		startedAt := func(denom string) bool {
			a, ok := o.Pre.Assets[denom]
			return ok && !o.Pre.Time.Before(a.RewardStartTime)
		}
		for pk, d := range o.Post.Dels {
			if pd, ok := o.Pre.Dels[pk]; (!ok || !pd.Shares.Equal(d.Shares)) && startedAt(pk.Denom) {
				changed[pk.Val] = true
			}
		}
		for pk := range o.Pre.Dels {
			if _, ok := o.Post.Dels[pk]; !ok && startedAt(pk.Denom) {
				changed[pk.Val] = true
			}
		}
		withdrawn := map[string]bool{}
		for _, wd := range o.Ev.Withdraws {
			if wd.Delegator == w.ModAddr.String() {
				withdrawn[wd.Validator] = true
			}
		}
		for v := range changed {
			if !o.PendingMod[v] {
				continue
			}
			// only meaningful when somebody could be credited (delegator shares exist) and the asset runs
			pv := o.Pre.Vals[v]
			if pv == nil || !pv.HasInfo || len(pv.Info.TotalDelegatorShares) == 0 {
				continue
			}
			rep.Eval("C13.settle-before-change")
			rep.Class("C13.settle/" + k)
			if !withdrawn[v] {
				rep.Violate("C13", "C13.settle-before-change", o.Idx, "%s changed stake on %s while %s of rewards were pending there for the module, and did not settle them first: the new stake shares in rewards accrued before it arrived", k, w.Name(v), o.PendingCoins[v])
				return
			}
		}
	}
	// before its reward start time an asset earns nothing: an explicit claim pays nothing
	if k == "claim" {
		if a, ok := o.Pre.Assets[o.Step.Den]; ok && o.Pre.Time.Before(a.RewardStartTime) {
			rep.Eval("C13.warmup-pays-nothing")
			rep.Class("C13.claim/warmup")
			for _, t := range o.Ev.Transfers {
				if t.From == w.PoolAddr.String() {
					rep.Violate("C13", "C13.warmup-pays-nothing", o.Idx, "claim on (%s,%s,%s) paid %s before the asset's reward start time", w.Name(o.Actor), w.Name(o.Val), o.Step.Den, t.Coins)
					return
				}
			}
		}
	}
	// (2) payout vs entitlement at receipt, per claim
	for _, c := range claims {
		a, ok := o.Pre.Assets[c.Pos.Denom]
		if !ok {
			continue
		}
		started := !o.Pre.Time.Before(a.RewardStartTime)
		kind := "explicit"
		if k != "claim" {
			kind = "implicit-" + k
		}
		denoms := map[string]bool{}
		for d := range c.E {
			denoms[d] = true
		}
		for _, cc := range c.Coins {
			denoms[cc.Denom] = true
		}
		if !started {
			rep.Eval("C13.warmup-pays-nothing")
			rep.Class("C13.claim/warmup")
			if !c.Coins.IsZero() {
				rep.Violate("C13", "C13.warmup-pays-nothing", o.Idx, "claim on (%s,%s,%s) paid %s before the asset's reward start time", w.Name(c.Pos.Del), w.Name(c.Pos.Val), c.Pos.Denom, c.Coins)
				return
			}
			continue
		}
		if c.Taint == "" && c.Vmin != nil {
			// the position's value moved by more than rounding dust between the receipts and the claim without
			// a slash or take-rate deduction: not this property's quantifier (value changes are C04's business)
			two := ratI64(2)
			if new(big.Rat).Sub(c.Vmax, c.Vmin).Cmp(two) > 0 || ratAbs(new(big.Rat).Sub(c.Value, c.Vmin)).Cmp(two) > 0 || ratAbs(new(big.Rat).Sub(c.Value, c.Vmax)).Cmp(two) > 0 {
				c.Taint = "value-drift"
			}
		}
		if c.Taint != "" {
			rep.Class("C13.claim/tainted-" + c.Taint)
			continue // value-changing event between accrual and claim: C12's domain
		}
		rep.Class(fmt.Sprintf("C13.claim/%s/receipts%d/denoms%d", kind, min(c.N, 3), min(len(denoms), 3)))
		if d0, ok := o.Pre.Dels[c.Pos]; ok && c.N > 0 {
			nseg := 0
			for _, ws := range o.Pre.Weights {
				if ws.Denom == c.Pos.Denom && ws.Val == c.Pos.Val && ws.Height >= d0.LastRewardClaimHeight {
					nseg++
				}
			}
			if nseg >= 2 {
				rep.Class("C13.claim-across-two-snapshots") // two or more weight-change snapshots since the last claim
			}
		}
		for _, d := range sortedKeys(denoms) {
			E := c.E[d]
			if E == nil {
				E = new(big.Rat)
			}
			got := ratInt(c.Coins.AmountOf(d))
			// the claim multiplies the index difference by the REPORTED token value now, the entitlement
			// was accumulated on the exact value at each receipt: with values v_min..v_max at the receipts
			// and tokens_now in (value_now - 0.99, value_now + 0.01] the payout lies in
			// [E * tokens_lo / v_max - 1 - res, E * tokens_hi / v_min + res]
			res := new(big.Rat).Mul(c.Value, big.NewRat(int64(c.N+1), 1_000_000_000_000_000_000))
			res.Add(res, big.NewRat(1, 1000))
			lo, hi := new(big.Rat).Sub(E, ratI64(1)), new(big.Rat).Set(E)
			if c.Vmin != nil && c.Vmin.Sign() > 0 && E.Sign() > 0 {
				tokLo := new(big.Rat).Sub(c.Value, big.NewRat(99, 100))
				if tokLo.Sign() < 0 {
					tokLo = new(big.Rat)
				}
				tokHi := new(big.Rat).Add(c.Value, big.NewRat(1, 100))
				lo = new(big.Rat).Mul(E, new(big.Rat).Quo(tokLo, c.Vmax))
				lo.Sub(lo, ratI64(1))
				hi = new(big.Rat).Mul(E, new(big.Rat).Quo(tokHi, c.Vmin))
			}
			lo.Sub(lo, res)
			hi.Add(hi, res)
			rep.Eval("C13.payout")
			if E.Sign() > 0 {
				rep.Sample(map[string]any{"observed": kind + " claim", "position": w.Name(c.Pos.Del) + "," + w.Name(c.Pos.Val) + "," + c.Pos.Denom, "reward_denom": d, "paid": c.Coins.AmountOf(d).String(), "entitlement_at_receipt": ratStr(E), "allowed": []string{ratStr(lo), ratStr(hi)}, "receipts": c.N})
			}
			if got.Cmp(lo) < 0 && got.Cmp(hi) <= 0 {
				// recorded finding: the payout is truncated once per weight-change snapshot segment
				nseg := 0
				if d0, ok := o.Pre.Dels[c.Pos]; ok {
					for _, ws := range o.Pre.Weights {
						if ws.Denom == c.Pos.Denom && ws.Val == c.Pos.Val && ws.Height >= d0.LastRewardClaimHeight {
							nseg++
						}
					}
				}
				lo2 := new(big.Rat).Sub(lo, ratI64(int64(nseg)))
				if nseg > 0 && got.Cmp(lo2) >= 0 {
					rep.KnownFinding("C13", "segment-truncation", "claim on (%s,%s,%s) paid %s%s for an entitlement of %s: rewards are truncated separately for each of the %d weight-change snapshot segments since the last claim, losing up to one base unit per segment and reward denom", w.Name(c.Pos.Del), w.Name(c.Pos.Val), c.Pos.Denom, c.Coins.AmountOf(d), d, ratStr(E), nseg)
					rep.Class("C13.known.segment-truncation")
					continue
				}
			}
			if got.Cmp(lo) < 0 || got.Cmp(hi) > 0 {
				rep.Violate("C13", "C13.payout", o.Idx, "%s claim on (%s,%s,%s) paid %s%s; entitlement accumulated at receipt %s (allowed [%s, %s], position value %s, %d receipts)", kind, w.Name(c.Pos.Del), w.Name(c.Pos.Val), c.Pos.Denom, c.Coins.AmountOf(d), d, ratStr(E), ratStr(lo), ratStr(hi), ratStr(c.Value), c.N)
				return
			}
		}
	}
	// claim never changes any staked value
	if k == "claim" {
		rep.Eval("C13.stake-neutral")
		for pk := range o.Pre.Dels {
			if o.Pre.Value(pk).Cmp(o.Post.Value(pk)) != 0 {
				rep.Violate("C13", "C13.stake-neutral", o.Idx, "claim changed the staked value of (%s,%s,%s): %s -> %s", w.Name(pk.Del), w.Name(pk.Val), pk.Denom, ratStr(o.Pre.Value(pk)), ratStr(o.Post.Value(pk)))
				return
			}
		}
		for _, d := range o.Pre.AssetOrder {
			if !o.Pre.Assets[d].TotalTokens.Equal(o.Post.Assets[d].TotalTokens) {
				rep.Violate("C13", "C13.stake-neutral", o.Idx, "claim changed the staked total of %s", d)
				return
			}
		}
	}
	// immediate second claim pays nothing / new stake can claim nothing right away
	if k == "claim" || k == "delegate" || k == "redelegate" {
		var pks []PosKey
		switch k {
		case "claim", "delegate":
			pks = []PosKey{{o.Actor, o.Val, o.Step.Den}}
		case "redelegate":
			pks = []PosKey{{o.Actor, o.Dst, o.Step.Den}, {o.Actor, o.Val, o.Step.Den}}
		}
		for _, pk := range pks {
			if _, ok := o.Post.Dels[pk]; !ok {
				continue
			}
			vi := w.ValIndex(pk.Val)
			res := w.RunMsgOn(w.Ctx, m.R.buildMsg(Step{K: "claim", A: o.Step.A, V: vi, Den: pk.Denom}), false)
			if !res.OK {
				continue // C05/C12's business
			}
			ev := ParseEvents(res.Events)
			paid := sdk.NewCoins()
			for _, t := range ev.Transfers {
				if t.From == w.PoolAddr.String() && t.To == pk.Del {
					paid = paid.Add(t.Coins...)
				}
			}
			what := "C13.idempotent"
			if k != "claim" {
				what = "C13.not-retroactive"
			}
			rep.Eval(what)
			_, existed := o.Pre.Dels[pk]
			rep.Class(fmt.Sprintf("%s/%s/existed%v", what, k, existed))
			// allowance: the resolution of the index on the position's tokens (one unit per reward denom)
			val := o.Post.Value(pk)
			allow := new(big.Rat).Add(ratI64(1), new(big.Rat).Mul(val, big.NewRat(4, 1_000_000_000_000_000_000)))
			for _, c := range paid {
				if ratInt(c.Amount).Cmp(allow) > 0 {
					if k == "claim" {
						rep.Violate("C13", what, o.Idx, "an immediate second claim on (%s,%s,%s) paid %s", w.Name(pk.Del), w.Name(pk.Val), pk.Denom, paid)
					} else {
						rep.Violate("C13", what, o.Idx, "right after %s, a claim on (%s,%s,%s) pays %s: stake that just arrived (position existed before: %v) collects rewards accrued before it arrived", k, w.Name(pk.Del), w.Name(pk.Val), pk.Denom, paid, existed)
					}
					return
				}
			}
		}
	}
}

func (m *MonC13) AfterBlock(o *BlockOutcome) {
	m.rs.ProcessBlock(o)
	if os.Getenv("VMON_DEBUG") == "events" {
		for _, evs := range [][]abciEvent{o.EndEv.Raw, o.BegEv.Raw} {
			for _, e := range evs {
				line := e.Type
				hit := false
				for _, a := range e.Attributes {
					line += " " + a.Key + "=" + a.Value
					if a.Value == m.R.W.PoolAddr.String() || strings.Contains(a.Value, os.Getenv("VMON_EVGREP")) && os.Getenv("VMON_EVGREP") != "" {
						hit = true
					}
				}
				if hit {
					fmt.Printf("EV %d %.300s\n", o.Idx, line)
				}
			}
		}
	}
	if os.Getenv("VMON_DEBUG") != "" {
		fmt.Printf("POOL %d pre %s postEnd %s postBeg %s\n", o.Idx, o.Pre.BalOf(m.R.W.PoolAddr, "aaa"), o.PostEnd.BalOf(m.R.W.PoolAddr, "aaa"), o.PostBeg.BalOf(m.R.W.PoolAddr, "aaa"))
		for _, sl := range o.Slashes {
			fmt.Printf("   slash %s f=%s err=%q pre-pool %s post-pool(branch) %s claims %d\n", m.R.W.Name(sl.Val), sl.Fraction, sl.Err+sl.Panic, sl.Pre.BalOf(m.R.W.PoolAddr, "aaa"), sl.Post.BalOf(m.R.W.PoolAddr, "aaa"), len(sl.Ev.Claims))
		}
		fmt.Printf("LEDGER %d received %s paid %s pool %s\n", o.Idx, m.rs.Received, m.rs.Paid, o.PostBeg.Bal[m.R.W.PoolAddr.String()])
	}
	if o.EndRes.Failed() {
		return
	}
	rep := m.R.Rep
	if o.tainted {
		return
	}
	// conservation of the pool: everything forwarded = everything paid + what the pool holds
	rep.Eval("C13.pool-ledger")
	w := m.R.W
	for _, c := range m.rs.Received {
		paid := m.rs.Paid.AmountOf(c.Denom)
		bal := o.PostBeg.BalOf(w.PoolAddr, c.Denom)
		if !c.Amount.Equal(paid.Add(bal)) {
			rep.Violate("C13", "C13.pool-ledger", o.Idx, "rewards pool ledger of %s: received %s, paid %s, holds %s", c.Denom, c.Amount, paid, bal)
			return
		}
	}
}

// ================================================================================================
// C12
// ================================================================================================

type MonC12 struct {
	BaseMon
	rs *RewardShadow
}

func NewMonC12(r *Runner) *MonC12 { return &MonC12{BaseMon{r}, r.rewardShadow()} }
func (m *MonC12) Name() string    { return "C12" }

func (m *MonC12) AfterTx(o *TxOutcome) {
	m.rs.ProcessTx(o)
	if !o.Res.OK {
		return
	}
	// paid <= received at all times (cumulative ledger from events)
	m.cumulative(o.Idx)
}

func (m *MonC12) cumulative(idx int) {
	rep := m.R.Rep
	rep.Eval("C12.paid-le-received")
	for _, c := range m.rs.Paid {
		if c.Amount.GT(m.rs.Received.AmountOf(c.Denom)) {
			rep.Violate("C12", "C12.paid-le-received", idx, "the rewards pool has paid out %s%s in total but received only %s from the distribution module", c.Amount, c.Denom, m.rs.Received.AmountOf(c.Denom))
			return
		}
	}
}

func (m *MonC12) AfterBlock(o *BlockOutcome) {
	m.rs.ProcessBlock(o)
	if o.EndRes.Failed() {
		return
	}
	m.cumulative(o.Idx)
	for _, s := range o.Slashes {
		m.R.Rep.Class("C12.slash-between-accrual-and-claim/" + fracClass(s.Fraction))
	}
}

// Probe: on branches of the current state, claim for EVERY delegation in several orders; every claim
// must succeed (equivalently: the pool holds at least the sum of what all delegations can claim).
func (m *MonC12) Probe(idx int) {
	rep := m.R.Rep
	w := m.R.W
	s := m.R.Cur
	if len(s.DelOrder) == 0 {
		return
	}
	if m.R.Sh.TaintedSlash {
		// a slash callback aborted half-way earlier in this history (recorded C08 finding pool-short): the
		// chain state is a consequence of that finding and the reward reference no longer applies
		rep.Count("C12.skipped-after-failed-callback", 1)
		return
	}
	orders := [][]PosKey{append([]PosKey{}, s.DelOrder...)}
	rev := append([]PosKey{}, s.DelOrder...)
	for i, j := 0, len(rev)-1; i < j; i, j = i+1, j-1 {
		rev[i], rev[j] = rev[j], rev[i]
	}
	orders = append(orders, rev)
	big1 := append([]PosKey{}, s.DelOrder...)
	sort.SliceStable(big1, func(i, j int) bool { return s.Value(big1[i]).Cmp(s.Value(big1[j])) > 0 })
	orders = append(orders, big1)
	names := []string{"store-order", "reverse", "largest-first"}
	maxMag := 0
	for _, d := range s.AssetOrder {
		if mc := magClass(s.Assets[d].TotalTokens); mc > maxMag {
			maxMag = mc
		}
	}
	rep.Class(fmt.Sprintf("C12.claim-all/positions%d/slashes%d/mag%d", min(len(s.DelOrder), 6), min(m.R.Sh.SlashCount, 2), maxMag))
	anyFail := false
	if os.Getenv("VMON_DEBUG") != "" {
		for _, pk := range s.DelOrder {
			ai, vi := w.ActorIndex(pk.Del), w.ValIndex(pk.Val)
			bctx, _ := w.Ctx.CacheContext()
			// top up the pool on the branch so that the claim shows what it wants
			for _, c := range s.Supply {
				_ = w.App.BankKeeper.MintCoins(bctx, "mint", sdk.NewCoins(sdk.NewCoin(c.Denom, c.Amount)))
				_ = w.App.BankKeeper.SendCoinsFromModuleToModule(bctx, "mint", "alliance_rewards", sdk.NewCoins(sdk.NewCoin(c.Denom, c.Amount)))
			}
			res := w.RunMsgOn(bctx, m.R.buildMsg(Step{K: "claim", A: ai, V: vi, Den: pk.Denom}), true)
			ev := ParseEvents(res.Events)
			var wd, paid sdk.Coins
			for _, x := range ev.Withdraws {
				wd = wd.Add(x.Coins...)
			}
			for _, t := range ev.Transfers {
				if t.From == w.PoolAddr.String() {
					paid = paid.Add(t.Coins...)
				}
			}
			fmt.Printf("   SOLO step %d %s,%s,%s value %s: withdrew %s paid %s -> %s | E %v\n", idx, w.Name(pk.Del), w.Name(pk.Val), pk.Denom, ratStr(s.Value(pk)), wd, paid, res, fmtE(m.rs.E[pk]))
		}
	}
	for oi, ord := range orders {
		bctx, _ := w.Ctx.CacheContext()
		branchPaid := sdk.NewCoins()
		for _, pk := range ord {
			ai, vi := w.ActorIndex(pk.Del), w.ValIndex(pk.Val)
			if ai < 0 || vi < 0 {
				continue
			}
			rep.Eval("C12.claim-all")
			res := w.RunMsgOn(bctx, m.R.buildMsg(Step{K: "claim", A: ai, V: vi, Den: pk.Denom}), true)
			if os.Getenv("VMON_DEBUG") != "" && oi == 0 {
				ev := ParseEvents(res.Events)
				var wd, paid sdk.Coins
				for _, x := range ev.Withdraws {
					wd = wd.Add(x.Coins...)
				}
				for _, t := range ev.Transfers {
					if t.From == w.PoolAddr.String() {
						paid = paid.Add(t.Coins...)
					}
				}
				fmt.Printf("   claim-all %s,%s,%s value %s: withdrew %s paid %s -> %s\n", w.Name(pk.Del), w.Name(pk.Val), pk.Denom, ratStr(s.Value(pk)), wd, paid, res)
			}
			if res.OK {
				for _, t := range ParseEvents(res.Events).Transfers {
					if t.From == w.PoolAddr.String() {
						branchPaid = branchPaid.Add(t.Coins...)
					}
				}
				continue
			}
			anyFail = true
			msg := res.Err + res.Panic
			if !strings.Contains(msg, "insufficient funds") {
				// not a solvency failure (e.g. arithmetic panic at extreme magnitudes): C05's domain
				rep.Count("C12.claim-failed-other", 1)
				continue
			}
			cause, why := m.classify(s, msg, branchPaid)
			if cause != "" {
				m.R.PoolShort = true
				rep.KnownFinding("C12", cause, "claim-all (%s) fails on (%s,%s,%s) with %q: %s", names[oi], w.Name(pk.Del), w.Name(pk.Val), pk.Denom, msg, why)
				rep.Class("C12.known." + cause)
				break
			}
			rep.Violate("C12", "C12.claim-all", idx, "claiming for every delegation in %s fails on (%s,%s,%s): %s; exact entitlements %s, pool %s", names[oi], w.Name(pk.Del), w.Name(pk.Val), pk.Denom, msg, m.sumE(), s.Bal[w.PoolAddr.String()])
			return
		}
	}
	if !anyFail {
		m.R.PoolShort = false
	}
}

func (m *MonC12) sumE() string {
	tot := map[string]*big.Rat{}
	for _, e := range m.rs.E {
		for d, x := range e {
			if tot[d] == nil {
				tot[d] = new(big.Rat)
			}
			tot[d].Add(tot[d], x)
		}
	}
	var parts []string
	for _, d := range sortedKeys(tot) {
		parts = append(parts, ratStr(tot[d])+d)
	}
	return strings.Join(parts, ",")
}

// classify a solvency failure by the documented mechanisms (known_findings.json):
//   - slash-inflation: the pool covers the exact entitlements (sum of E), but "index x current tokens"
//     (sum of Q x value_now) exceeds it because position values were inflated by a slash since accrual;
//     rewards still pending in x/distribution add equally to the pool and to Q x value, so the excess
//     computed from the shadow is exactly what a claim-all must fall short by;
//   - index-round-up: the index increment (reward / staked tokens, 18 digits) rounds up; the shortfall
//     is within receipts x staked tokens x 1e-18 (only visible at 18-decimal magnitudes).
func (m *MonC12) classify(s *Snap, msg string, branchPaid ...sdk.Coins) (string, string) {
	w := m.R.W
	have, want, denom, ok := parseInsufficient(msg)
	if !ok {
		return "", ""
	}
	shortfall := new(big.Rat).Sub(ratInt(want), ratInt(have))
	sumE, sumQ, res := new(big.Rat), new(big.Rat), new(big.Rat)
	inflated := false
	for pk, q := range m.rs.Q {
		v := s.Value(pk)
		if x := q[denom]; x != nil {
			sumQ.Add(sumQ, new(big.Rat).Mul(x, v))
		}
		if e := m.rs.E[pk][denom]; e != nil {
			sumE.Add(sumE, e)
		}
		if m.rs.Taint[pk] == "slash" {
			inflated = true
		}
	}
	for _, pk := range s.DelOrder {
		res.Add(res, new(big.Rat).Mul(s.Value(pk), big.NewRat(int64(m.rs.N[pk]+3), 1_000_000_000_000_000_000)))
	}
	// the reward amounts themselves are multiplied by 18-digit weights: absolute error ~1e-18 x amount per
	// asset and receipt
	flows := new(big.Rat).Add(ratInt(want), ratInt(have))
	flows.Add(flows, ratInt(s.BalOf(w.PoolAddr, denom)))
	for _, bp := range branchPaid {
		flows.Add(flows, ratInt(bp.AmountOf(denom))) // what earlier claims of the same claim-all run were paid
	}
	res.Add(res, new(big.Rat).Mul(flows, big.NewRat(int64(len(s.AssetOrder)+1)*10, 1_000_000_000_000_000_000)))
	// the index divides by the validator's token value vs/tvs x TT computed with 18 digits: when the fraction
	// vs/tvs is small it has few significant digits and the value (hence the index) is off by 1e-18/fraction
	maxFracErr := new(big.Rat)
	for _, pk := range s.DelOrder {
		v := s.Vals[pk.Val]
		a, ok := s.Assets[pk.Denom]
		if v == nil || !v.HasInfo || !ok || a.TotalValidatorShares.IsZero() {
			continue
		}
		vs := ratDec(decAmount(v.Info.ValidatorShares, pk.Denom))
		if vs.Sign() <= 0 {
			continue
		}
		fe := new(big.Rat).Quo(ratDec(a.TotalValidatorShares), vs)
		fe.Mul(fe, big.NewRat(2, 1_000_000_000_000_000_000))
		if fe.Cmp(maxFracErr) > 0 {
			maxFracErr = fe
		}
	}
	for _, fe := range m.rs.FracErr {
		if fe.Cmp(maxFracErr) > 0 {
			maxFracErr = fe // the error at the time the rewards were received (the fraction may have grown since)
		}
	}
	if maxFracErr.Cmp(ratI64(1)) > 0 {
		maxFracErr = ratI64(1)
	}
	res.Add(res, new(big.Rat).Mul(flows, maxFracErr))
	res.Add(res, ratI64(int64(len(s.DelOrder))+1))
	pool := ratInt(s.BalOf(w.PoolAddr, denom))
	excess := new(big.Rat).Sub(sumQ, pool)
	covered := new(big.Rat).Add(pool, res)
	if op := m.rs.Overpaid[denom]; op != nil {
		covered.Add(covered, op)
		if op.Sign() > 0 && m.R.Sh.SlashCount > 0 {
			inflated = true // claims inflated by an earlier slash were already paid out of this pool
		}
	}
	if os.Getenv("VMON_DEBUG") != "" {
		fmt.Printf("C12 classify %s: have %s want %s shortfall %s sumE %s sumQ %s pool %s excess %s res %s inflated %v slashes %d\n", denom, have, want, ratStr(shortfall), ratStr(sumE), ratStr(sumQ), ratStr(pool), ratStr(excess), ratStr(res), inflated, m.R.Sh.SlashCount)
		for pk, q := range m.rs.Q {
			if x := q[denom]; x != nil {
				fmt.Printf("   pos %s,%s,%s value %s E %s Qv %s taint %q\n", w.Name(pk.Del), w.Name(pk.Val), pk.Denom, ratStr(s.Value(pk)), ratStr(m.rs.E[pk][denom]), ratStr(new(big.Rat).Mul(x, s.Value(pk))), m.rs.Taint[pk])
			}
		}
	}
	// rounder-overclaim: a claim multiplies the index by the REPORTED token value floor(value + 0.01);
	// for a position whose exact value is just below a whole number that is more than the value the
	// index was computed for, so the claims on a validator can exceed what was received for it
	maxRel := new(big.Rat)
	for _, pk := range s.DelOrder {
		v := s.Value(pk)
		rp := new(big.Rat).SetInt(s.Reported(pk))
		if mr := new(big.Rat).SetInt(ModuleReported(s, pk)); mr.Cmp(rp) > 0 {
			rp = mr // the module's 18-digit arithmetic rounded the value up across the +0.01 threshold
		}
		if v.Sign() > 0 && rp.Cmp(v) > 0 {
			rel := new(big.Rat).Quo(new(big.Rat).Sub(rp, v), v)
			if rel.Cmp(maxRel) > 0 {
				maxRel = rel
			}
		}
	}
	rounderBound := new(big.Rat)
	if maxRel.Sign() > 0 {
		rounderBound.Mul(flows, maxRel)
	}
	// a position's value may legitimately move by up to one base unit through other users' rounding (C04's
	// tolerance) and is reported up to one unit above the exact value: per position that is worth Q (reward per
	// unit of value) - negligible except for dust positions that hold a large entitlement
	for _, q := range m.rs.Q {
		if x := q[denom]; x != nil {
			rounderBound.Add(rounderBound, x)
		}
	}
	if inflated && excess.Sign() > 0 && covered.Cmp(sumE) >= 0 && shortfall.Cmp(new(big.Rat).Add(new(big.Rat).Add(excess, res), rounderBound)) <= 0 {
		return "slash-inflation", fmt.Sprintf("pool holds %s%s, exact entitlements at receipt sum to %s, but index x current token value sums to %s because a slash inflated position values after the rewards accrued (shortfall of this claim %s)", s.BalOf(w.PoolAddr, denom), denom, ratStr(sumE), ratStr(sumQ), ratStr(shortfall))
	}
	if orr := m.rs.OverRounder[denom]; rounderBound.Sign() > 0 || (orr != nil && orr.Sign() > 0) {
		bound := new(big.Rat).Set(rounderBound)
		bound.Add(bound, ratI64(int64(len(s.DelOrder))+1))
		bound.Add(bound, res)
		if orr != nil {
			bound.Add(bound, orr) // such overpayments already made earlier left the pool that much short
		}
		if shortfall.Cmp(bound) <= 0 {
			return "rounder-overclaim", fmt.Sprintf("pool of %s short by %s: a position worth just under a whole number of tokens claims with its reported value (exact value + 0.01 rounded down), up to %s relatively more than the index was computed for", denom, ratStr(shortfall), maxRel.FloatString(6))
		}
	}
	resAll := new(big.Rat).Set(res)
	if or := m.rs.OverRound[denom]; or != nil {
		resAll.Add(resAll, or) // round-ups already paid out earlier left the pool that much short
	}
	if shortfall.Cmp(resAll) <= 0 && resAll.Cmp(ratI64(int64(len(s.DelOrder))+2)) > 0 {
		return "index-round-up", fmt.Sprintf("pool of %s short by %s, within the 18-digit resolution of the reward index on the staked totals (%s)", denom, ratStr(shortfall), ratStr(res))
	}
	return "", ""
}

// parseInsufficient parses the bank error "spendable balance <have><denom> is smaller than <want><denom>".
func parseInsufficient(msg string) (have, want math.Int, denom string, ok bool) {
	i := strings.Index(msg, "spendable balance ")
	if i < 0 {
		return
	}
	rest := msg[i+len("spendable balance "):]
	j := strings.Index(rest, " is smaller than ")
	if j < 0 {
		return
	}
	a := rest[:j]
	rest = rest[j+len(" is smaller than "):]
	k := strings.IndexAny(rest, ": ")
	if k < 0 {
		k = len(rest)
	}
	b := rest[:k]
	ca, err1 := sdk.ParseCoinNormalized(a)
	cb, err2 := sdk.ParseCoinNormalized(b)
	if err1 != nil || err2 != nil || ca.Denom != cb.Denom {
		return
	}
	return ca.Amount, cb.Amount, ca.Denom, true
}

var _ = math.ZeroInt

func fmtE(e map[string]*big.Rat) string {
	var parts []string
	for _, d := range sortedKeys(e) {
		parts = append(parts, ratStr(e[d])+d)
	}
	return strings.Join(parts, ",")
}

// afterBondedSlash: copy of the snapshot with the bonded part of the specified slash applied (validator
// shares of val x (1-f) in every asset, the assets' share totals reduced equally).
func afterBondedSlash(pre *Snap, val string, f math.LegacyDec) *Snap {
	cp := *pre
	cp.Assets = map[string]types.AllianceAsset{}
	for d, a := range pre.Assets {
		cp.Assets[d] = a
	}
	cp.Vals = map[string]*ValSnap{}
	for k, v := range pre.Vals {
		cp.Vals[k] = v
	}
	v := pre.Vals[val]
	if v == nil || !v.HasInfo {
		return &cp
	}
	nv := *v
	var shares []sdk.DecCoin
	for _, c := range v.Info.ValidatorShares {
		cut := c.Amount.Mul(f)
		rest := c.Amount.Sub(cut)
		if rest.IsPositive() {
			shares = append(shares, sdk.NewDecCoinFromDec(c.Denom, rest))
		}
		if a, ok := cp.Assets[c.Denom]; ok {
			a.TotalValidatorShares = a.TotalValidatorShares.Sub(cut)
			cp.Assets[c.Denom] = a
		}
	}
	nv.Info.ValidatorShares = shares
	cp.Vals[val] = &nv
	return &cp
}

type abciEvent = abcitypes.Event

package main

// mon_replay.go — replay/differential monitors: C18 genesis export/import equivalence (lock-step
// continuation on the original and the re-imported state) and C19 determinism (same history replayed
// on sibling branches, byte comparison of stores, results and events).

import (
	"bytes"
	"crypto/sha256"
	"encoding/hex"
	"encoding/json"
	"fmt"
	"sort"
	"strings"

	abci "github.com/cometbft/cometbft/abci/types"
	sdk "github.com/cosmos/cosmos-sdk/types"
	authtypes "github.com/cosmos/cosmos-sdk/x/auth/types"
	banktypes "github.com/cosmos/cosmos-sdk/x/bank/types"
	distrtypes "github.com/cosmos/cosmos-sdk/x/distribution/types"
	slashingtypes "github.com/cosmos/cosmos-sdk/x/slashing/types"
	stakingtypes "github.com/cosmos/cosmos-sdk/x/staking/types"

	"github.com/terra-money/alliance/x/alliance/keeper"
	"github.com/terra-money/alliance/x/alliance/types"
)

// BoundaryMon is implemented by monitors that want to look at the state between the end of one block
// and the beginning of the next (where a genesis export happens).
type BoundaryMon interface {
	AtBoundary(o *BlockOutcome)
}

// ================================================================================================
// C18
// ================================================================================================

type MonC18 struct {
	BaseMon
	every  int
	nblock int
	K      int // continuation length
}

func NewMonC18(r *Runner) *MonC18 { return &MonC18{BaseMon: BaseMon{r}, every: 5, K: 14} }
func (m *MonC18) Name() string    { return "C18" }

func eventsDigest(evs []abci.Event) string {
	h := sha256.New()
	for _, e := range evs {
		h.Write([]byte(e.Type))
		for _, a := range e.Attributes {
			h.Write([]byte{0})
			h.Write([]byte(a.Key))
			h.Write([]byte{1})
			h.Write([]byte(a.Value))
		}
		h.Write([]byte{2})
	}
	return hex.EncodeToString(h.Sum(nil))[:16]
}

// observables: everything a user or another module can see of the alliance module and its effects.
func (m *MonC18) observables(ctx sdk.Context) map[string]string {
	w := m.R.W
	out := map[string]string{}
	k := w.App.AllianceKeeper
	func() {
		defer func() {
			if p := recover(); p != nil {
				out["export"] = fmt.Sprintf("panic: %v", p)
			}
		}()
		out["export"] = string(w.App.AppCodec().MustMarshalJSON(k.ExportGenesis(ctx)))
	}()
	s := w.Snapshot(ctx)
	for _, a := range sortedKeys(s.Bal) {
		out["bal/"+w.Name(a)] = s.Bal[a].String()
	}
	out["supply"] = s.Supply.String()
	out["bonded"] = s.TotalBonded.String()
	for _, vo := range s.ValOrder {
		v := s.Vals[vo]
		out["val/"+w.Name(vo)] = fmt.Sprintf("%s|%v|%s|%s|%s", v.Status, v.Jailed, v.Tokens, v.DelShares, v.ModShares)
	}
	// queries
	qs := keeper.NewQueryServerImpl(k)
	qctx, _ := ctx.CacheContext()
	for _, a := range w.Actors {
		del := a.String()
		if r, err := qs.AllianceUnbondingsByDelegator(qctx, &types.QueryAllianceUnbondingsByDelegatorRequest{DelegatorAddr: del}); err == nil {
			b, _ := json.Marshal(r.Unbondings)
			out["q/unb/"+w.Name(del)] = string(b)
		} else {
			out["q/unb/"+w.Name(del)] = "err " + err.Error()
		}
		if r, err := qs.AllianceRedelegationsByDelegator(qctx, &types.QueryAllianceRedelegationsByDelegatorRequest{DelegatorAddr: del}); err == nil {
			b, _ := json.Marshal(r.Redelegations)
			out["q/red/"+w.Name(del)] = string(b)
		}
		if r, err := qs.AlliancesDelegation(qctx, &types.QueryAlliancesDelegationsRequest{DelegatorAddr: del}); err == nil {
			b, _ := json.Marshal(r.Delegations)
			out["q/del/"+w.Name(del)] = string(b)
		}
		for _, v := range w.Vals {
			for _, d := range s.AssetOrder {
				if r, err := qs.AllianceUnbondings(qctx, &types.QueryAllianceUnbondingsRequest{Denom: d, DelegatorAddr: del, ValidatorAddr: v.Oper.String()}); err == nil && len(r.Unbondings) > 0 {
					b, _ := json.Marshal(r.Unbondings)
					out["q/unb3/"+w.Name(del)+"/"+w.Name(v.Oper.String())+"/"+d] = string(b)
				}
			}
		}
	}
	return out
}

func diffObs(a, b map[string]string) string {
	keys := map[string]bool{}
	for k := range a {
		keys[k] = true
	}
	for k := range b {
		keys[k] = true
	}
	var ks []string
	for k := range keys {
		ks = append(ks, k)
	}
	sort.Strings(ks)
	for _, k := range ks {
		if a[k] != b[k] {
			x, y := a[k], b[k]
			// shorten to the differing region
			i := 0
			for i < len(x) && i < len(y) && x[i] == y[i] {
				i++
			}
			st := max(0, i-60)
			return fmt.Sprintf("%s: original ...%.200s, re-imported ...%.200s", k, x[st:], y[st:min(len(y), len(y))][min(st, len(y)):])
		}
	}
	return ""
}

// reimport wipes the module store of ctx and imports gs.
func (m *MonC18) reimport(ctx sdk.Context, gs *types.GenesisState) (err error) {
	w := m.R.W
	defer func() {
		if p := recover(); p != nil {
			err = fmt.Errorf("import panicked: %v", p)
		}
	}()
	st := ctx.MultiStore().GetKVStore(w.App.GetKey(types.StoreKey))
	var keys [][]byte
	it := st.Iterator(nil, nil)
	for ; it.Valid(); it.Next() {
		keys = append(keys, append([]byte{}, it.Key()...))
	}
	it.Close()
	for _, k := range keys {
		st.Delete(k)
	}
	w.App.AllianceKeeper.InitGenesis(ctx, gs)
	return nil
}

func (m *MonC18) AtBoundary(o *BlockOutcome) {
	m.nblock++
	if m.nblock%m.every != 0 || o.EndRes.Failed() {
		return
	}
	rep := m.R.Rep
	w := m.R.W
	s := o.PostEnd
	prev := m.R.inObs
	m.R.inObs = true // slash callbacks on the branches are not the main line
	defer func() { m.R.inObs = prev }()

	ctxA, _ := w.Ctx.CacheContext()
	ctxB, _ := w.Ctx.CacheContext()
	gs := w.App.AllianceKeeper.ExportGenesis(ctxA)
	// round trip through JSON, as a real export/import does
	bz := w.App.AppCodec().MustMarshalJSON(gs)
	var gs2 types.GenesisState
	w.App.AppCodec().MustUnmarshalJSON(bz, &gs2)
	rep.Eval("C18.import")
	if err := m.reimport(ctxB, &gs2); err != nil {
		rep.Violate("C18", "C18.import", o.Idx, "%v", err)
		return
	}
	merged := false
	type rk struct {
		del, den, dst string
		t            int64
	}
	srcs := map[rk]map[string]bool{}
	for _, e := range m.R.Sh.Redel {
		k := rk{e.Del, e.Denom, e.Dst, e.Completion.UnixNano()}
		if srcs[k] == nil {
			srcs[k] = map[string]bool{}
		}
		srcs[k][e.Src] = true
		if len(srcs[k]) > 1 {
			merged = true
		}
	}
	warm := false
	for _, d := range s.AssetOrder {
		if s.Time.Before(s.Assets[d].RewardStartTime) {
			warm = true
		}
	}
	partial := false
	for _, u := range m.R.Sh.Unb {
		if u.Slashes > 0 {
			partial = true
		}
	}
	rep.Class(fmt.Sprintf("C18.boundary/unb%d/red%d/merged%v/snapshots%v/warmup%v/slashed-entries%v/flag%v", min(len(s.Unb), 3), min(len(s.Redels), 3), merged, len(s.Weights) > 0, warm, partial, s.Flag))
	rep.Eval("C18.second-export")
	bz2 := w.App.AppCodec().MustMarshalJSON(w.App.AllianceKeeper.ExportGenesis(ctxB))
	if !bytes.Equal(bz, bz2) {
		i := 0
		for i < len(bz) && i < len(bz2) && bz[i] == bz2[i] {
			i++
		}
		rep.Violate("C18", "C18.second-export", o.Idx, "the export of the re-imported module differs from the first export at byte %d: ...%.160s vs ...%.160s", i, bz[max(0, i-40):], bz2[max(0, i-40):])
		return
	}
	// the same continuation on both, in lock-step
	g := NewGen(m.R.Hist.Seed^0xc18, m.R.Hist.Index*1000+m.nblock, &Profile{Name: "c18", MaxOps: 4, PSlash: 0.5, PDowntime: 0, PNative: 0.1, PClaim: 0.2, PGov: 0.05, Pack: true, BigGaps: false})
	g.R = m.R
	var cont []Step
	ops := 2
	for len(cont) < m.K {
		st := g.Next(&ops)
		if st.K == "block" && g.chance(0.4) {
			// jump over the unbonding period: maturities and clean-ups
			st.Block.DtNs = int64(s.Unbonding) + 1
		}
		cont = append(cont, st)
	}
	// lockstep runs the continuation on the original and on a re-imported branch; withFlag additionally sets
	// the (non-exported) pending-rebalance flag on the re-imported branch before the continuation starts
	lockstep := func(withFlag, withIndex bool) (int, string) {
		a, _ := w.Ctx.CacheContext()
		b, _ := w.Ctx.CacheContext()
		if err := m.reimport(b, &gs2); err != nil {
			return 0, err.Error()
		}
		if withFlag {
			_ = w.App.AllianceKeeper.QueueAssetRebalanceEvent(b)
		}
		if withIndex {
			// restore by hand the by-source index entries that the import cannot know (merged records)
			st := b.MultiStore().GetKVStore(w.App.GetKey(types.StoreKey))
			for _, e := range m.R.Sh.Redel {
				src, _ := sdk.ValAddressFromBech32(e.Src)
				dst, _ := sdk.ValAddressFromBech32(e.Dst)
				del, _ := sdk.AccAddressFromBech32(e.Del)
				st.Set(types.GetRedelegationIndexKey(src, e.Completion, e.Denom, dst, del), []byte{})
			}
		}
		for i, st := range cont {
			ra, ea := m.apply(&a, st)
			rb, eb := m.apply(&b, st)
			rep.Eval("C18.lock-step")
			if ra != rb {
				return i, fmt.Sprintf("results differ: original %q, re-imported %q", ra, rb)
			} else if ea != eb {
				return i, "events differ: " + firstDiff(strings.Split(ea, "\n"), strings.Split(eb, "\n"))
			} else if d := diffObs(m.observables(a), m.observables(b)); d != "" {
				return i, "observables differ: " + d
			}
		}
		return -1, ""
	}
	i, what := lockstep(false, false)
	if what != "" {
		known := ""
		// counterfactuals: with the non-exported flag / the lost by-source index entries restored by hand the
		// re-imported state must behave identically, otherwise the divergence has another cause
		if s.Flag {
			if _, w2 := lockstep(true, false); w2 == "" {
				known = "rebalance-flag-not-exported"
			}
		}
		if known == "" && merged {
			if _, w2 := lockstep(s.Flag, true); w2 == "" {
				known = "redelegation-merge"
			}
		}
		if known != "" {
			rep.KnownFinding("C18", known, "after export/import the continuation step %d (%s) behaves differently: %.300s", i, cont[i].K, what)
			rep.Class("C18.known." + known)
			return
		}
		rep.Violate("C18", "C18.lock-step", o.Idx, "export/import at height %d, continuation step %d %s: %s", s.Height, i, cont[i], what)
		return
	}
	rep.Sample(map[string]any{"observed": "export/import boundary", "height": s.Height, "pending_unbonding_buckets": len(s.Unb), "pending_redelegation_records": len(s.Redels), "weight_snapshots": len(s.Weights), "export_bytes": len(bz), "continuation": cont})
	rep.Class("C18.continuation-equal")
}

func eventsText(evs []abci.Event) []string {
	var out []string
	for _, e := range evs {
		l := e.Type
		for _, a := range e.Attributes {
			l += " " + a.Key + "=" + a.Value
		}
		out = append(out, l)
	}
	return out
}

func firstDiff(a, b []string) string {
	for i := 0; i < len(a) || i < len(b); i++ {
		x, y := "<none>", "<none>"
		if i < len(a) {
			x = a[i]
		}
		if i < len(b) {
			y = b[i]
		}
		if x != y {
			return fmt.Sprintf("event %d: original %.220s | re-imported %.220s", i, x, y)
		}
	}
	return ""
}

// apply executes one continuation step on a branch context; returns result string and events digest.
func (m *MonC18) apply(pctx *sdk.Context, st Step) (string, string) {
	w := m.R.W
	switch st.K {
	case "block":
		eb := w.EndBlockOn(*pctx)
		res := fmt.Sprintf("end[%s%s]", eb.Err, eb.Panic)
		dg := strings.Join(eventsText(eb.Events), "\n")
		if eb.Failed() {
			return res, dg
		}
		bb := w.BeginBlockOn(pctx, *st.Block, false)
		return res + fmt.Sprintf(" begin[%s%s]", bb.Err, bb.Panic), dg + "\n" + strings.Join(eventsText(bb.Events), "\n")
	case "donate", "legacy_create", "legacy_update", "legacy_delete":
		return "skipped", ""
	default:
		msg := m.R.buildMsg(st)
		if msg == nil {
			return "skipped", ""
		}
		r := w.RunMsgOn(*pctx, msg, true)
		return r.String(), strings.Join(eventsText(r.Events), "\n")
	}
}

// ================================================================================================
// C19 (digest recording; the comparison of replays is done by the orchestration in checks)
// ================================================================================================

var c19Stores = []string{types.StoreKey, banktypes.StoreKey, stakingtypes.StoreKey, distrtypes.StoreKey, slashingtypes.StoreKey, authtypes.StoreKey}

type MonC19 struct {
	BaseMon
	Digests []string
}

func NewMonC19(r *Runner) *MonC19 { return &MonC19{BaseMon: BaseMon{r}} }
func (m *MonC19) Name() string    { return "C19" }

func (m *MonC19) AfterTx(o *TxOutcome) {
	m.Digests = append(m.Digests, fmt.Sprintf("tx %d %s %s ev:%s", o.Idx, o.Step.K, o.Res.String(), eventsDigest(o.Res.Events)))
}

func (m *MonC19) AfterBlock(o *BlockOutcome) {
	h := sha256.Sum256(m.R.W.DumpStores(m.R.W.Ctx, c19Stores...))
	m.Digests = append(m.Digests, fmt.Sprintf("block %d end[%s%s]ev:%s begin[%s%s]ev:%s state:%s", o.Idx, o.EndRes.Err, o.EndRes.Panic, eventsDigest(o.EndRes.Events), o.BegRes.Err, o.BegRes.Panic, eventsDigest(o.BegRes.Events), hex.EncodeToString(h[:8])))
	nslash := len(o.Slashes)
	nred := len(o.Pre.Redels)
	m.R.Rep.Class(fmt.Sprintf("C19.block/slashes%d/redels%d/unb%d/matured%d", min(nslash, 2), min(nred, 3), min(len(o.Pre.Unb), 3), min(len(o.Matured), 2)))
}

func (m *MonC19) Finish() {
	h := sha256.Sum256(m.R.W.DumpStores(m.R.W.Ctx, c19Stores...))
	m.Digests = append(m.Digests, "final state:"+hex.EncodeToString(h[:]))
}

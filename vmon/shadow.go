package main

// shadow.go — reference model updated only from successful driver operations and from the property
// text, never by calling the code under judgement (DESIGN.md 3.4).

import (
	"fmt"
	"math/big"
	"time"

	"cosmossdk.io/math"
)

type ShadowUnb struct {
	ID                  int
	Del, Val, Denom     string
	Amount              math.Int
	Created, Completion time.Time
	Slashes             int
}

func (u ShadowUnb) Key() string {
	return fmt.Sprintf("%s|%s|%s|%s|%d", u.Del, u.Val, u.Denom, u.Amount, u.Completion.UnixNano())
}

type ShadowRedel struct {
	ID                   int
	Del, Src, Dst, Denom string
	Amount               math.Int
	Completion           time.Time
}

type Deposit struct {
	Denom   string
	Time    time.Time
	Amount  math.Int
	Clock   time.Time // take-rate clock at the time of deposit
	Charged int       // number of already-elapsed intervals this deposit has been charged for
}

type Shadow struct {
	R      *Runner
	nextID int
	Unb    []ShadowUnb
	Redel  []ShadowRedel
	Dep    []Deposit
	// slash bookkeeping
	LastSlashIdx  int // step index of the last slash anywhere (-1 none)
	SlashCount    int
	TaintedSlash  bool // a slash callback failed: shadow resynchronised from the real state
	LastTakeIdx   map[string]int
	ClockRewrites int
}

func NewShadow(r *Runner) *Shadow {
	return &Shadow{R: r, LastSlashIdx: -1, LastTakeIdx: map[string]int{}}
}

func (sh *Shadow) ApplyTx(o *TxOutcome) {
	if !o.Res.OK {
		return
	}
	switch o.Step.K {
	case "undelegate":
		sh.nextID++
		sh.Unb = append(sh.Unb, ShadowUnb{ID: sh.nextID, Del: o.Actor, Val: o.Val, Denom: o.Step.Den, Amount: o.Amount, Created: o.Pre.Time, Completion: o.Pre.Time.Add(o.Pre.Unbonding)})
	case "redelegate":
		sh.nextID++
		sh.Redel = append(sh.Redel, ShadowRedel{ID: sh.nextID, Del: o.Actor, Src: o.Val, Dst: o.Dst, Denom: o.Step.Den, Amount: o.Amount, Completion: o.Pre.Time.Add(o.Pre.Unbonding)})
	case "delegate":
		sh.Dep = append(sh.Dep, Deposit{Denom: o.Step.Den, Time: o.Pre.Time, Amount: o.Amount, Clock: o.Pre.Params.LastTakeRateClaimTime})
	case "gov_params":
		if !o.Post.Params.LastTakeRateClaimTime.Equal(o.Pre.Params.LastTakeRateClaimTime) || o.Post.Params.TakeRateClaimInterval != o.Pre.Params.TakeRateClaimInterval {
			// governance rewrote the take-rate reference: a governance decision, not a module fault
			sh.ClockRewrites++
			sh.Dep = nil
		}
	}
}

func (sh *Shadow) ApplyBlock(o *BlockOutcome) {
	T := o.Pre.Time
	var keep []ShadowUnb
	for _, u := range sh.Unb {
		if u.Completion.Before(T) {
			o.Matured = append(o.Matured, u)
		} else {
			keep = append(keep, u)
		}
	}
	sh.Unb = keep
	var keepR []ShadowRedel
	for _, r := range sh.Redel {
		if r.Completion.Before(T) {
			o.MaturedR = append(o.MaturedR, r)
		} else {
			keepR = append(keepR, r)
		}
	}
	sh.Redel = keepR
	o.shUnbAfterEnd = sh.UnbKeys()
	for _, s := range o.Slashes {
		sh.ApplySlash(s)
		if s.Err != "" || s.Panic != "" {
			o.tainted = true
		}
	}
	if o.tainted {
		// the hook aborted half-way (x/staking only logs that): adopt the real entries so that later
		// judgements are not mere consequences of this one
		sh.ResyncUnb(o.PostBeg)
	}
}

// ApplySlash applies the *specified* effect of a slash on pending unbondings (property C07):
// every still-pending entry that originated from V loses exactly floor(f * balance), once.
func (sh *Shadow) ApplySlash(s *SlashRecord) {
	sh.LastSlashIdx = s.Idx
	sh.SlashCount++
	if s.Err != "" || s.Panic != "" {
		sh.TaintedSlash = true
		return
	}
	T := s.Pre.Time
	f := ratDec(s.Fraction)
	for i := range sh.Unb {
		u := &sh.Unb[i]
		if u.Val != s.Val || u.Completion.Before(T) {
			continue
		}
		cut := ratFloor(new(big.Rat).Mul(f, ratInt(u.Amount)))
		u.Amount = u.Amount.Sub(math.NewIntFromBigInt(cut))
		u.Slashes++
	}
}

// ResyncUnb adopts the real pending entries (used only after a recorded known finding or a failed
// slash callback made the real state legitimately diverge from the specification).
func (sh *Shadow) ResyncUnb(s *Snap) {
	sh.Unb = nil
	for _, b := range s.Unb {
		for _, e := range b.Entries {
			sh.nextID++
			sh.Unb = append(sh.Unb, ShadowUnb{ID: sh.nextID, Del: e.Del, Val: e.Val, Denom: e.Denom, Amount: e.Amount, Completion: b.Completion})
		}
	}
}

func (sh *Shadow) UnbKeys() []string {
	var out []string
	for _, u := range sh.Unb {
		out = append(out, u.Key())
	}
	return out
}

func (s *Snap) UnbKeys() []string {
	var out []string
	for _, b := range s.Unb {
		for _, e := range b.Entries {
			out = append(out, ShadowUnb{Del: e.Del, Val: e.Val, Denom: e.Denom, Amount: e.Amount, Completion: b.Completion}.Key())
		}
	}
	return out
}

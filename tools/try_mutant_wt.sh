#!/bin/bash
# usage: tools/try_mutant_wt.sh <patch.diff> <PROPERTY-ID> [name]
# Like try_mutant.sh but never touches /repo's working tree: the patch is applied in a private scratch worktree
# of /repo HEAD and the monitor is built against it through a private modfile (replace => the worktree), so
# several changes can be tried in parallel. The worktree is removed straight after the build.
export DBUS_SESSION_BUS_ADDRESS="${DBUS_SESSION_BUS_ADDRESS:-unix:path=/nonexistent/vmon-no-session-bus}"   # no session bus daemon per process (keyring init)
patch="$1"; id="$2"; name="${3:-$(basename $(dirname $patch))}"
snap="${VMON_SNAP:-/verif}"   # where vmon/, known_findings.json and findings/ are taken from (matrix.sh snapshots them)
export GOFLAGS=-mod=mod GOPROXY=off GOSUMDB=off GOTOOLCHAIN=local
wt=/var/tmp/vmon-mutwt-$name-$$
mod=/var/tmp/vmon-mutmod-$name-$$
git -C /repo worktree add --detach "$wt" HEAD >/dev/null 2>&1 || { echo "$name vs $id: cannot create worktree"; exit 2; }
cleanup() { git -C /repo worktree remove --force "$wt" >/dev/null 2>&1; rm -rf "$wt" $mod.mod $mod.sum; }
if ! git -C "$wt" apply "$patch" 2>/dev/null; then cleanup; echo "$name vs $id: PATCH DOES NOT APPLY"; exit 3; fi
sed "s|=> /repo|=> $wt|" $snap/vmon/go.mod > $mod.mod; cp /repo/go.sum $mod.sum
out=/verif/work/mutwt/$name-s${VERIF_SEED:-1}
mkdir -p $out/work $out/evidence
( cd $snap/vmon && go build -modfile=$mod.mod -tags verif -o $out/vmon-mut . ) ; brc=$?
cleanup
if [ $brc -ne 0 ]; then echo "$name vs $id: BUILD FAILED"; exit 4; fi
cp $snap/known_findings.json $out/; rm -rf $out/findings; cp -r $snap/findings $out/
VERIF_DIR=$out $out/vmon-mut check "$id" quick > $out/check-$id.log 2>&1
rc=$?
rm -f $out/vmon-mut
echo "$name vs $id: exit $rc; $(grep -c '^VIOLATION' $out/check-$id.log) violation lines; first: $(grep '^violated\|^INCONCLUSIVE' $out/check-$id.log | head -1 | cut -c1-260)"
exit $rc

#!/bin/bash
# usage: tools/confirm_mutant.sh <dir with patch.diff demo_test.go meta.json> <name>
# Confirms, in a scratch worktree of /repo HEAD: patch applies, repo compiles, the whole pinned suite passes with
# the patch, the demo fails with the patch and passes without it. Writes the verdict to <seeded>/<name>/confirm.json.
export DBUS_SESSION_BUS_ADDRESS="${DBUS_SESSION_BUS_ADDRESS:-unix:path=/nonexistent/vmon-no-session-bus}"   # no session bus daemon per process (keyring init)
src="$1"; name="$2"
export GOFLAGS=-mod=mod GOPROXY=off GOSUMDB=off GOTOOLCHAIN=local GOMAXPROCS=${GOMAXPROCS:-6}
wt=/var/tmp/vmon-confirm-$name
rm -rf "$wt"; git -C /repo worktree prune
git -C /repo worktree add -f --detach "$wt" HEAD >/dev/null 2>&1 || { echo "$name: cannot create worktree"; exit 2; }
out=/verif/seeded/$name; mkdir -p "$out"
cp "$src/patch.diff" "$src/demo_test.go" "$out/" ; cp "$src/meta.json" "$out/meta.agent.json" 2>/dev/null
cd "$wt"
applies=false; builds=false; suite=false; demo_fails_with=false; demo_passes_without=false
demo_path=$(head -5 "$src/demo_test.go" | grep -o 'x/alliance[^ ]*_test.go\|app/[^ ]*_test.go\|custom/[^ ]*_test.go' | head -1)
[ -z "$demo_path" ] && demo_path=x/alliance/keeper/tests/zz_demo_${name//-/_}_test.go
demo_dir=$(dirname "$demo_path")
# demo without the patch
cp "$src/demo_test.go" "$demo_path"
tests=$(grep -o '^func Test[A-Za-z0-9_]*' "$src/demo_test.go" | sed 's/func //' | paste -sd'|')
if go test -vet=off -count=1 -run "^($tests)\$" ./$demo_dir/ >"$out/demo_without.log" 2>&1; then demo_passes_without=true; fi
rm -f "$demo_path"
if git apply --check "$src/patch.diff" 2>/dev/null; then
  applies=true; git apply "$src/patch.diff"
  if go build ./... >"$out/build.log" 2>&1; then builds=true; fi
  if go test -vet=off -count=1 -timeout 25m ./... >"$out/suite_with.log" 2>&1; then suite=true; fi
  git checkout -- x/alliance/tests/benchmark/benchmark_genesis.json 2>/dev/null
  cp "$src/demo_test.go" "$demo_path"
  if ! go test -vet=off -count=1 -run "^($tests)\$" ./$demo_dir/ >"$out/demo_with.log" 2>&1; then demo_fails_with=true; fi
fi
cd /; git -C /repo worktree remove --force "$wt" 2>/dev/null; rm -rf "$wt"
tail -c 600 "$out/suite_with.log" > "$out/suite_with.tail" 2>/dev/null; rm -f "$out/suite_with.log"
printf '{"name":"%s","applies":%s,"builds":%s,"suite_passes_with_patch":%s,"demo_fails_with_patch":%s,"demo_passes_without_patch":%s,"repo_head":"%s","demo_path":"%s"}\n' "$name" $applies $builds $suite $demo_fails_with $demo_passes_without "$(git -C /repo rev-parse --short HEAD)" "$demo_path" > "$out/confirm.json"
cat "$out/confirm.json"

#!/bin/bash
# Mutant kill run: every seeded change (and every fix-revert) against the quick check of its property.
# Writes /verif/seeded/MATRIX.tsv. /repo must be clean; it is restored after every run.
cd /verif; out=${MATRIX_OUT:-seeded/MATRIX.tsv}; : > $out
run() { # name patch prop
  res=$(tools/try_mutant.sh "$2" "$3" 2>&1 | tail -1)
  echo -e "$1\t$3\t$res" | tee -a $out
}
for d in seeded/*/; do
  n=$(basename $d); p=${n%%-*}
  [ -f $d/patch.diff ] || continue
  run $n /verif/$d/patch.diff $p
done
for f in mutants/fix-reverts/*.diff; do
  n=$(basename $f .diff); p=${n%%-*}
  run $n /verif/$f $p
done

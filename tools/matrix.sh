#!/bin/bash
# Mutant kill run: every seeded change (and every fix-revert) against the quick check of its property, three at a
# time, each built in a private scratch worktree (tools/try_mutant_wt.sh; /repo's working tree is not touched).
# Writes ${MATRIX_OUT:-seeded/MATRIX.tsv}; honours VERIF_SEED.
cd /verif; out=${MATRIX_OUT:-seeded/MATRIX.tsv}; tmp=$(mktemp -d /verif/work/matrix.XXXX)
mkdir -p $tmp/snap; cp -r vmon known_findings.json findings $tmp/snap/; export VMON_SNAP=$tmp/snap   # later edits do not leak in
run() { # name patch prop
  res=$(/verif/tools/try_mutant_wt.sh "$2" "$3" "$1" 2>&1 | tail -1)
  echo -e "$1\t$3\t$res" > $4/$1.line
}
export -f run
{
for d in seeded/*/; do
  n=$(basename $d); p=${n%%-*}
  [ -f $d/patch.diff ] || continue
  echo "$n /verif/$d/patch.diff $p $tmp"
done
for f in mutants/fix-reverts/*.diff; do
  n=$(basename $f .diff); p=${n%%-*}
  echo "$n /verif/$f $p $tmp"
done
} | xargs -P ${MATRIX_JOBS:-3} -L 1 bash -c 'run $0 $1 $2 $3'
cat $tmp/*.line | sort > $out; rm -rf $tmp
cat $out

#!/usr/bin/env python3
"""Generates /verif/MANIFEST.json from the table below (kept in one place so it always validates)."""
import json, subprocess, sys
sys.path.insert(0, '/verif/tools')
props = {}
for l in open('/verif/properties.jsonl'):
    p = json.loads(l); props[p['id']] = p

TRUST = ("Trusted base: the world's fidelity to baseapp (DESIGN.md 3.1: real app, real module manager Begin/EndBlocker, "
         "real message router, CacheContext atomicity; no ante handler / tx decoding), the exact-rational reference model and the derived "
         "error budgets (DESIGN.md 4.2), the independent raw-store decoder, and the verif hook at the entry of BeforeValidatorSlashed. "
         "Decides only the executions the seeded generator and the scripted prefixes produce; reports 'held on K executions', never 'verified'.")

claimed = {
 'C01': ('invariant at a hook + event-log conservation', 'Custody balance of every asset denom compared exactly with staked total + pending unbondings (+ world-ledgered donations) after every transaction, slash callback, end-block and begin-block of randomized hostile histories; a surplus must be explained step by step by the event log (recorded finding stranded-rewards), a shortfall is never tolerated.', '5/C01'),
 'C02': ('reference list of pending unbondings vs event log and raw store', 'A reference list built only from successful undelegations and the C07 slash rule is compared, at every end-of-block, with the custody payouts of the event log and the delegators balance deltas (exact, strictly-later rule), and with the independently decoded queue and per-validator index afterwards; histories pack buckets and snipe block times at completion -1ns/=/+1ns.', '5/C02'),
 'C03': ('invariant at a hook (independent store decoder) + SDK invariants', 'Share sums recomputed from an independent decoder of the raw module store and compared exactly with the recorded totals after every step; negatives and reset-on-drain checked; the modules registered invariants and all SDK invariants (crisis) evaluated every block.', '5/C03'),
 'C06': ('spec re-execution in exact rationals around every slash callback', 'The specified slash is applied to an exact-rational copy of the pre-state ledger and every position value is compared with the real post-state (order-agnostic over entries hitting one destination, 18-digit error budget) for every real slash (observed through the verif hook) and for probe slashes of every created validator with rotating fractions on branches; a callback that fails is judged by what it left behind (x/staking slashes the validator anyway).', '5/C06'),
 'C07': ('reference entries + event log around every slash callback', 'Every pending unbonding entry before/after each slash callback (real and probe) must change exactly as specified: floor(f*balance) once for entries of the slashed validator with completion >= block time, byte-identical otherwise; fee collector delta equals the sum of reductions; redelegation destinations match the exact-rational model.', '5/C07'),
 'C08': ('probes: callback for every validator x fractions on branches + real slashes via hook', 'Return value, panic, rebalance flag and completeness of effects of the slash callback are observed for every real slash (the verif hook sees the error x/staking swallows) and for every validator x {1e-18, 0.01, 0.5, 1} on branches of every k-th visited state, in states with undelegated / shrunk / onward-moved redelegation destinations.', '5/C08'),
 'C10': ('independent target recomputation after every end-of-block', 'After every end-of-block the alliance-minted stake of every bonded validator is compared with a target recomputed from the post-state independently of the modules code path (tolerance: two units plus the targets sensitivity to the sub-unit uncertainty of the native bonded amount), unconditionally every block, under native delegations, full undelegations, redelegations, real slashes, jailing/unjailing and warm-up expiry.', '5/C10'),
 'C11': ('closed-form supply deltas + event pairing + query comparison', 'Net staking-denom supply unchanged by every alliance transaction and by end-of-block (beyond the designed burn), module account empty after each block end (modulo the recorded finding), every staking-denom flow out of the module account goes to a staking pool or the rewards pool, mints equal flows into the staking pools; SupplyOf/TotalSupply compared with raw supply minus independently recomputed bonded module stake.', '5/C11'),
 'C15': ('before/after exact values + restriction probes + raw stores vs reference entries', 'Every successful redelegation is checked for exact value movement, no payout, unchanged totals/custody and a recorded entry; after every step probe transactions on a branch check that the onward-hop restriction holds exactly while a reference entry is pending; after every end-of-block the raw records, source index and time queue equal the reference entries.', '5/C15'),
 'C16': ('generated governance traffic + store diff + asset predicate', 'Governance messages and legacy contents with every signer kind and fuzzed fields in all asset states: success implies signer = authority, rejection implies byte-identical module store, stored-asset predicate after every step, protected fields preserved by updates, delete only when empty, create only once.', '5/C16'),
 'C04': ('before/after exact-rational value of every position + round-trip probes', 'For every successful delegate/undelegate/redelegate/claim the exact-rational value of EVERY position is compared before and after: actor +-amount, everybody else unchanged, other assets exactly unchanged, within one base unit plus the 18-digit budget scaled by the share price; reported values sum <= staked total + one per position; fresh-delegation round-trip probes on branches.', '5/C04'),
 'C05': ('non-destructive probe transactions on branches', 'After every k-th step probe transactions on discarded branches: delegate 1 unit and a large amount of every asset to every validator, claim and fully undelegate every position with a positive reported balance, undelegate from every delegation record whose validator record is gone; each must succeed; failures are matched by cause (quantitative predicate and provenance of the state, e.g. a validator whose shares a user exit wiped is not the recorded zero-value-validator finding) against recorded mechanisms (known_findings.json) and are violations otherwise.', '5/C05'),
 'C09': ('per-block arithmetic oracle (2048-bit reference power) + deposit log', 'Around every end-of-block: trigger condition, n whole intervals, new total floor(T*(1-r)^n) within the 18-digit budget (never zero), exact transfer to the fee collector from the event log, clock advanced by exactly n intervals, common shrink factor of all positions, untouched warm-up/zero-rate assets, and a reference deposit log deciding retroactive charging (recorded finding clock-lag).', '5/C09'),
 'C12': ('probe: claim everything in three orders on branches + cumulative pool ledger', 'After every k-th step every delegation is claimed on branches in three orders and every claim must succeed; total paid <= total received per denom from the event log; solvency failures are classified with the exact entitlement (E) and implemented index x current-value (Q) columns of the reward shadow.', '5/C12'),
 'C13': ('entitlement at receipt (exact rationals) + settle-before-change + immediate-claim probes', 'Every withdraw_rewards of the module is attributed from the eager pre-step snapshot by weight x asset share and pro rata to exact position values; every explicit or implicit claim without value-changing event since accrual must pay that entitlement within the derived bounds; stake-changing steps with rewards pending must settle first; probe claims right after delegate/redelegate pay nothing; second claim pays nothing; claims are stake-neutral.', '5/C13'),
 'C14': ('per-block arithmetic oracle + settle-before-change on weight changes', 'Weight within range after every step; due decays equal clamp(w*rate^n) against a 2048-bit reference, clock advanced by exactly n intervals, clock restarts when governance configures decay; every step that stores a different weight must withdraw rewards pending for the module first; warm-up assets not charged / not initialised early.', '5/C14'),
 'C18': ('export -> wipe -> import on a branch, lock-step continuation', 'At every 5th block boundary: second export byte-identical; a 14-step continuation (operations, slashes of validators with pending entries, maturity jumps) runs on the original and the re-imported state in lock-step; results, event digests, balances, supply, validator states, exports and queries compared after every step.', '5/C18'),
 'C19': ('replays on sibling branches with byte comparison, every other replay interleaved with discarded-branch (ghost) executions incl. look-ahead; re-runs in fresh processes; race detector run in thorough', 'Every history is replayed twice from its explicit step list on sibling branches in one process, one of the replays with each step first executed on a branch that is thrown away (state kept outside the store shows up as a divergence), and a sample of histories is executed once more in a process of its own and must give the same digest; results, event digests and SHA-256 of the raw alliance/bank/staking/distribution/slashing/auth stores compared after every step/block. The static source-scan clause of the property is out of reach of runtime monitoring and is not decided.', '5/C19'),
 'C20': ('independent enumeration of primary records vs every query and binding', 'Every gRPC query for all filter arguments from the live state (plus absent ones), unpaginated and stitched from key/offset pages and with count_total, compared as multisets with an independent raw-store enumeration and the reference entries; reported balance probed with Undelegate(balance)/(balance+1); contract bindings compared field by field with gRPC.', '5/C20'),
 'C17': ('recover around every end-of-block under accepted-configuration fuzz', 'Every end-of-block of every history of the gov/extreme/time profiles must return without error or panic; configuration values are only those the modules own handlers accepted on the main line; the recorded decay-overflow finding is matched only when the intervals elapsed since decay was configured explain the overflow.', '5/C17'),
}

checks = []
for pid in sorted(claimed):
    tech, text, ref = claimed[pid]
    checks.append({
        'property_id': pid,
        'quick_cmd': f'./check {pid} quick',
        'thorough_cmd': f'./check {pid} thorough',
        'evidence_file': f'/verif/evidence/{pid}.json',
        'replay_cmd_template': './bin/vmon replay {path}',
        'engine': 'vmon',
        'level_claimed': {'category': 'exploration', 'text': text, 'design_ref': 'DESIGN.md section ' + ref},
        'level_note': TRUST,
        'technique': 'runtime monitoring: ' + tech,
    })
na = []
for pid in sorted(props):
    if pid not in claimed:
        na.append({'property_id': pid, 'reason': 'monitor still under construction in this round (runtime monitoring applies; see DESIGN.md section 5); not claimed until its check runs silent on the unchanged tree'})
m = {
 'version': 1,
 'setup_cmd': './build.sh',
 'hooks': {
   'guard': 'verif',
   'enable': 'go build -tags verif (done by ./build.sh on every check invocation, from /repo working tree)',
   'baseline_off_cmd': './baseline.sh',
   'source_commits': subprocess.run(['git','-C','/repo','log','--format=%H','--grep=^verif hook'],capture_output=True,text=True).stdout.split(),
   'add_only': True,
 },
 'engines': [{'name': 'vmon', 'path': '/verif/vmon', 'serves_properties': sorted(claimed), 'kind_free_text': 'Go program driving the real alliance app in-process (module manager Begin/EndBlocker, message router, real evidence/downtime slashes) under seeded hostile workloads with online monitors; child process per index range; explicit replay files'}],
 'checks': checks,
 'not_applicable': na,
 'notes': 'Known findings (genuine defects recorded, not repaired) are the open entries of /verif/known_findings.json, each with a cause predicate implemented in its monitor and a committed witness history (findings/<property>-<cause>.json) that every run of the check re-executes; repaired defects are the fix: commits of /repo, listed in the same file under "fixed" as lines "fixed: property=<id> <commit> <what failed>" (they suppress nothing). Seeded changes and what detects them: /verif/seeded (MATRIX*.tsv), /verif/mutants.',
}
json.dump(m, open('/verif/MANIFEST.json','w'), indent=1)
print('claimed', len(checks), 'not_applicable', len(na))

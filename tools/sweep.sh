#!/bin/bash
# usage: tools/sweep.sh <tier> <seed>... — runs every check at each seed and keeps failing outputs under work/sweep/
export DBUS_SESSION_BUS_ADDRESS="${DBUS_SESSION_BUS_ADDRESS:-unix:path=/nonexistent/vmon-no-session-bus}"   # no session bus daemon per process (keyring init)
tier=$1; shift
cd /verif; mkdir -p work/sweep
for s in "$@"; do
  for id in $(./bin/vmon list); do
    out=$(VERIF_SEED=$s ./bin/vmon check $id $tier 2>&1); rc=$?
    if [ $rc -ne 0 ]; then echo "$out" > work/sweep/$id-$tier-s$s.out; fi
    echo "seed=$s $id rc=$rc $(echo "$out" | grep -c '^VIOLATION') viol :: $(echo "$out" | grep '^violated\|INCONCLUSIVE' | head -1 | cut -c1-220)"
  done
done

#!/bin/bash
# usage: tools/run_all.sh [quick|thorough] — runs every claimed check sequentially, prints one line each
tier=${1:-quick}
cd /verif; ./build.sh || exit 2
for id in $(./bin/vmon list); do
  s=$(date +%s)
  out=$(./bin/vmon check $id $tier 2>&1); rc=$?
  e=$(date +%s)
  echo "$id rc=$rc $((e-s))s known=$(echo "$out" | grep -c '^KNOWN-FINDING') viol=$(echo "$out" | grep -c '^VIOLATION') :: $(echo "$out" | tail -1 | cut -c1-160)"
done

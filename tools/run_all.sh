#!/bin/bash
# usage: tools/run_all.sh [quick|thorough] — runs every claimed check sequentially, prints one line each.
# Works from any copy of /verif (uses the directory it lives in; evidence/replays go there too).
export DBUS_SESSION_BUS_ADDRESS="${DBUS_SESSION_BUS_ADDRESS:-unix:path=/nonexistent/vmon-no-session-bus}"   # no session bus daemon per process (keyring init)
tier=${1:-quick}
here="$(cd "$(dirname "$0")/.." && pwd)"
cd "$here"; ./build.sh || exit 2
export VERIF_DIR="$here"
mkdir -p work
for id in $(./bin/vmon list); do
  s=$(date +%s)
  out=$(./bin/vmon check $id $tier 2>&1); rc=$?
  e=$(date +%s)
  [ $rc -ne 0 ] && echo "$out" > work/fail-$id-$tier-s${VERIF_SEED:-1}.out
  echo "seed=${VERIF_SEED:-1} $id rc=$rc $((e-s))s known=$(echo "$out" | grep -c '^KNOWN-FINDING') viol=$(echo "$out" | grep -c '^VIOLATION') :: $(echo "$out" | grep '^violated\|^INCONCLUSIVE\|held on' | head -1 | cut -c1-200)"
done

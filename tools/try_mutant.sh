#!/bin/sh
# usage: tools/try_mutant.sh <patch.diff> <PROPERTY-ID> [scale]
# Applies a seeded change to /repo, runs the property's quick check, and restores /repo straight afterwards.
patch="$1"; id="$2"; scale="${3:-1}"
cd /repo || exit 2
if ! git apply --check "$patch" 2>/dev/null; then echo "PATCH DOES NOT APPLY: $patch"; exit 3; fi
git apply "$patch"
cd /verif
VMON_SCALE="$scale" VERIF_DIR=/verif/work/mut ./check "$id" quick > /verif/work/mut-$id.log 2>&1
rc=$?
cd /repo && git checkout -- . 
echo "$(basename $(dirname $patch)) vs $id: exit $rc; $(grep -c '^VIOLATION' /verif/work/mut-$id.log) violation lines; first: $(grep '^violated' /verif/work/mut-$id.log | head -1 | cut -c1-260)"
exit $rc

#!/bin/sh
# usage: tools/try_mutant.sh <patch.diff> <PROPERTY-ID> [scale]
# Applies a seeded change to /repo, builds a SEPARATE monitor binary (so that concurrent sweeps using
# bin/vmon are not disturbed), restores /repo straight after the build, and runs the property's quick check.
patch="$1"; id="$2"; scale="${3:-1}"
cd /repo || exit 2
if ! git apply --check "$patch" 2>/dev/null; then echo "PATCH DOES NOT APPLY: $patch"; exit 3; fi
git apply "$patch"
cd /verif/vmon
export GOFLAGS=-mod=mod GOPROXY=off GOSUMDB=off GOTOOLCHAIN=local
go build -tags verif -o ../bin/vmon-mut . ; brc=$?
cd /repo && git checkout -- .
if [ $brc -ne 0 ]; then echo "$(basename $(dirname $patch)) vs $id: BUILD FAILED"; exit 4; fi
cd /verif
mkdir -p work/mut/work work/mut/evidence; cp known_findings.json work/mut/
VMON_SCALE="$scale" VERIF_DIR=/verif/work/mut ./bin/vmon-mut check "$id" quick > /verif/work/mut-$id.log 2>&1
rc=$?
echo "$(basename $(dirname $patch)) vs $id: exit $rc; $(grep -c '^VIOLATION' /verif/work/mut-$id.log) violation lines; first: $(grep '^violated' /verif/work/mut-$id.log | head -1 | cut -c1-260)"
exit $rc

#!/bin/bash
# usage: tools/equiv_all.sh <patch.diff> [name]
# False-alarm test: builds the monitor against a private worktree of /repo HEAD + a property-preserving patch and runs
# ALL quick checks; prints every check that does not exit 0 (there must be none).
export DBUS_SESSION_BUS_ADDRESS="${DBUS_SESSION_BUS_ADDRESS:-unix:path=/nonexistent/vmon-no-session-bus}"   # no session bus daemon per process (keyring init)
patch="$1"; name="${2:-$(basename $patch .diff)}"
export GOFLAGS=-mod=mod GOPROXY=off GOSUMDB=off GOTOOLCHAIN=local
wt=/var/tmp/vmon-eqwt-$name-$$; mod=/var/tmp/vmon-eqmod-$name-$$
git -C /repo worktree add --detach "$wt" HEAD >/dev/null 2>&1 || { echo "$name: cannot create worktree"; exit 2; }
cleanup() { git -C /repo worktree remove --force "$wt" >/dev/null 2>&1; rm -rf "$wt" $mod.mod $mod.sum; }
if ! git -C "$wt" apply "$patch" 2>/dev/null; then cleanup; echo "$name: PATCH DOES NOT APPLY"; exit 3; fi
sed "s|=> /repo|=> $wt|" /verif/vmon/go.mod > $mod.mod; cp /repo/go.sum $mod.sum
out=/verif/work/equiv/$name; mkdir -p $out/work $out/evidence
( cd /verif/vmon && go build -modfile=$mod.mod -tags verif -o $out/vmon-eq . ); brc=$?
cleanup
[ $brc -ne 0 ] && { echo "$name: BUILD FAILED"; exit 4; }
cp /verif/known_findings.json $out/; rm -rf $out/findings; cp -r /verif/findings $out/
bad=0
for id in $($out/vmon-eq list); do
  VERIF_DIR=$out $out/vmon-eq check $id quick > $out/check-$id.log 2>&1; rc=$?
  if [ $rc -ne 0 ]; then bad=$((bad+1)); echo "$name $id rc=$rc :: $(grep '^violated\|^INCONCLUSIVE' $out/check-$id.log | head -1 | cut -c1-240)"; fi
done
rm -f $out/vmon-eq
echo "$name: $bad of 20 checks not silent"

#!/bin/bash
# usage: tools/equiv.sh <patch> — all quick checks must stay silent on a property-preserving change
patch="$1"; cd /repo && git apply "$patch" || exit 3
cd /verif/vmon && GOFLAGS=-mod=mod GOPROXY=off GOSUMDB=off GOTOOLCHAIN=local go build -tags verif -o ../bin/vmon-mut . ; brc=$?
cd /repo && git checkout -- .
[ $brc -ne 0 ] && { echo BUILD FAILED; exit 4; }
cd /verif; mkdir -p work/mut/work work/mut/evidence; cp known_findings.json work/mut/
for id in $(./bin/vmon-mut list); do
  out=$(VERIF_DIR=/verif/work/mut ./bin/vmon-mut check $id quick 2>&1); rc=$?
  echo "$id rc=$rc $(echo "$out" | grep '^violated\|^INCONCL' | head -1 | cut -c1-200)"
done
